"""Expansion of //@GEN markers in /verif/kani/*.rs harness modules from the typed-in spec tables."""
import os
import re

from . import core
from .spec_tables import BINOPS, LEVEL, RIGHT_ASSOC, RULE, must_paren_binary


def op_from_index():
    arms = "\n".join(f"        {i} => BinaryOp::{o}," for i, o in enumerate(BINOPS[:-1]))
    return f"""fn op_from_index(k: u8) -> BinaryOp {{
    match k {{
{arms}
        _ => BinaryOp::{BINOPS[-1]},
    }}
}}

fn any_binop() -> BinaryOp {{
    let k: u8 = kani::any();
    kani::assume(k < {len(BINOPS)});
    op_from_index(k)
}}
"""


def spec_level():
    arms = "\n".join(f"        BinaryOp::{o} => {LEVEL[o]}," for o in BINOPS)
    return f"fn spec_level(op: BinaryOp) -> usize {{\n    match op {{\n{arms}\n    }}\n}}\n"


def spec_must_wrap():
    """Rust text of the specification predicate must_paren_binary, generated from the typed-in table."""
    return """fn spec_must_wrap(p: BinaryOp, c: BinaryOp, is_left: bool) -> bool {
    let lp = spec_level(p);
    let lc = spec_level(c);
    if lc < lp { return true; }
    if lc > lp { return false; }
    // same level: every level groups to the left except the level of ^
    if p == BinaryOp::Power { is_left } else { !is_left }
}
"""


def parens_open_left():
    out = []
    for k, name in enumerate(["conditional", "lambda", "assignment"]):
        out.append(f"    {{ let child = open_term({k}); let p = any_binop(); let r = needs_parens_in_binop(&p, &child, true);")
        for p in BINOPS:
            out.append(f'      if p == BinaryOp::{p} {{ assert!(r, "U-PARENS#parent={p},child={name},side=left:must-wrap"); }}')
        out.append("      std::mem::forget(child); }")
    return "\n".join(out)


def table_rules():
    out = []
    for o in BINOPS:
        out.append(f'    assert!(rule_of(BinaryOp::{o}) == Some(Rule::{RULE[o]}), "U-PREC#table-rule:{o}-is-written-{RULE[o]}");')
    return "\n".join(out)


def binop_nondot_from_index():
    nd = [o for o in BINOPS if not o.startswith("Dot")]
    arms = "\n".join(f"        {i} => BinaryOp::{o}," for i, o in enumerate(nd[:-1]))
    arms_all = "\n".join(f"        {i} => BinaryOp::{o}," for i, o in enumerate(BINOPS[:-1]))
    return f"""fn any_nondot_binop() -> BinaryOp {{
    let k: u8 = kani::any();
    kani::assume(k < {len(nd)});
    match k {{
{arms}
        _ => BinaryOp::{nd[-1]},
    }}
}}

fn any_binop_all() -> BinaryOp {{
    let k: u8 = kani::any();
    kani::assume(k < {len(BINOPS)});
    match k {{
{arms_all}
        _ => BinaryOp::{BINOPS[-1]},
    }}
}}
"""


NONDOT = [o for o in BINOPS if not o.startswith("Dot")]


BINOP_GROUPS = {
    "addsub": ["Add", "Subtract"],
    "muldiv": ["Multiply", "Divide", "Modulo"],
    "power": ["Power"],
    "compare": ["Equal", "NotEqual", "Less", "LessEq", "Greater", "GreaterEq"],
    "logic": ["And", "NaturalAnd", "Or", "NaturalOr", "Coalesce", "Where"],
    "apply": ["Via", "Into"],
}
assert sorted(sum(BINOP_GROUPS.values(), [])) == sorted(NONDOT)


def binop_scalar_harness_names():
    return [f"u_binop_scalar_{g}" for g in BINOP_GROUPS]


def binop_scalar_harnesses():
    """One harness per operator group; inside, the operator is dispatched to CONSTANT operators (one contract call each)."""
    out = []
    for g, ops in BINOP_GROUPS.items():
        arms = "\n".join(f"            {i} => binop_scalar_contract(BinaryOp::{o})," for i, o in enumerate(ops[:-1]))
        out.append(f"""fn binop_scalar_group_{g}() {{
    let k: u8 = kani::any();
    kani::assume(k < {len(ops)});
    match k {{
{arms}
            _ => binop_scalar_contract(BinaryOp::{ops[-1]}),
    }}
}}
binop_scalar_harness!(u_binop_scalar_{g}, binop_scalar_group_{g}, cadical);
""")
    return "\n".join(out)


# Operators whose broadcasting harnesses discharge (measured, 8 in parallel): 2.5-17 min each. Excluded after one full run:
# Multiply / Divide / Modulo (the list result against the scalar-arm result is again a multiplier / divider equivalence:
# 50 min timeout), Power (CBMC's powf is not a function: two calls differ), Add and the six comparisons (CBMC ran out of
# memory at 11-18 GB per process).
BCAST_OPS = ["Subtract", "Coalesce", "And", "NaturalAnd", "Or", "NaturalOr"]


def bcast_harness_names(kind):
    return [f"u_bcast_{kind}_{o.lower()}" for o in BCAST_OPS]


def bcast_harnesses():
    """One harness per (block, operator) with a CONSTANT operator: each costs 10-20 CPU minutes (measured), so they
    run in parallel and only in the thorough tier."""
    out = []
    for kind, contract in (("ls", "bcast_list_scalar_contract"), ("ll", "bcast_list_list_contract")):
        for o in BCAST_OPS:
            out.append(f"fn bcast_{kind}_{o.lower()}() {{ {contract}(BinaryOp::{o}); }}")
            out.append(f"bcast_harness!(u_bcast_{kind}_{o.lower()}, bcast_{kind}_{o.lower()});")
    return "\n".join(out)


GENERATORS = {
    "bcast_harnesses": bcast_harnesses,
    "binop_scalar_harnesses": binop_scalar_harnesses,
    "binop_nondot_from_index": binop_nondot_from_index,
    "op_from_index": op_from_index,
    "spec_must_wrap": spec_must_wrap,
    "spec_level": spec_level,
    "parens_open_left": parens_open_left,
    "table_rules": table_rules,
}


def expand(module_rel, outdir):
    """Expand markers of /verif/kani/<module_rel> into outdir; returns path of the expanded file."""
    src = open(os.path.join(core.VERIF, "kani", module_rel)).read()

    def rep(m):
        name = m.group(1)
        if name not in GENERATORS:
            raise core.Undecided("gen", "unknown-generator", name)
        return GENERATORS[name]()
    out = re.sub(r"^[ \t]*//@GEN (\w+)[ \t]*$", rep, src, flags=re.M)
    os.makedirs(outdir, exist_ok=True)
    p = os.path.join(outdir, os.path.basename(module_rel))
    open(p, "w").write(out)
    return p
