"""Rule T4: assemble a single-file Verus unit from items extracted VERBATIM from /repo plus
contracts kept in /verif/verus/*.tmpl.

Template directives (each on its own line):
  //@SUBST <from> ==> <to>            textual type substitution applied to every extracted item
  //@EXTRACT enum|struct <file> <Name>
  //@EXTRACT fn <file> <Impl>::<name>       (or bare <name> for a free fn)
  //@|   requires / ensures / decreases ... lines spliced between signature and body
  //@EXTRACT macrofn <file> <macro> <fn> <var>=<value> ...   fn from a macro_rules! body, $var substituted
Everything else is copied through (opaque external types, spec fns, lemmas: the specification).

What extraction drops / rewrites (and nothing else): attributes, doc comments, `pub`/`pub(crate)`,
the enclosing `impl` header (functions are re-wrapped in `impl <Impl> { }` by the template text),
`-> T` becomes `-> (r: T)` so the contract can name the result, the listed //@SUBST type names.
Function bodies are byte-identical to /repo (hash recorded)."""
import os
import re

from . import core
from .core import Undecided


def strip_attrs_docs_vis(text):
    out = []
    for ln in text.split("\n"):
        s = ln.strip()
        if s.startswith("///") or s.startswith("//!"):
            continue
        if s.startswith("#[") and s.endswith("]"):
            continue
        out.append(ln)
    t = "\n".join(out)
    t = re.sub(r"\bpub(\([a-z]+\))?\s+", "", t)
    return t


def name_result(sig):
    """`fn f(..) -> T {`  =>  `fn f(..) -> (r: T)`  (signature only, without the brace)."""
    sig = sig.rstrip()
    m = re.search(r"->\s*(.+)$", sig, flags=re.S)
    if not m:
        return sig
    ty = m.group(1).strip()
    if ty.startswith("(r:"):
        return sig
    return sig[: m.start()] + f"-> (r: {ty})"


def extract_macro_fn(src, macro, fn, subst, file, unit):
    blk = core.find_block(src, r"^macro_rules!\s+" + re.escape(macro) + r"\s*\{", file, unit=unit)
    body = src[blk.body_open: blk.end]
    it = core.find_fn(body, fn, file, unit=unit)
    text = it.text
    for k, v in subst.items():
        text = text.replace("$" + k, v)
    return it, text


def build(template_rel, workdir, unit):
    tpath = os.path.join(core.VERIF, "verus", template_rel)
    lines = open(tpath).read().split("\n")
    substs = []
    out = []
    meta = {"functions": [], "extraction": [], "fn_lines": []}
    cache = {}

    def src_of(file):
        if file not in cache:
            cache[file] = open(os.path.join(core.REPO, "blots-core", "src", file)).read()
        return cache[file]

    def apply_subst(t):
        for a, b in substs:
            t = t.replace(a, b)
        return t

    i = 0
    while i < len(lines):
        ln = lines[i]
        s = ln.strip()
        if s.startswith("//@SUBST "):
            a, b = s[len("//@SUBST "):].split(" ==> ")
            substs.append((a.strip(), b.strip()))
            meta["extraction"].append({"rule": "T4 subst", "from": a.strip(), "to": b.strip()})
            i += 1
            continue
        if s.startswith("//@EXTRACT "):
            parts = s.split()
            kind, file = parts[1], parts[2]
            spec = []
            j = i + 1
            while j < len(lines) and lines[j].strip().startswith("//@|"):
                spec.append(lines[j].strip()[4:])
                j += 1
            src = src_of(file)
            if kind in ("enum", "struct"):
                name = parts[3]
                it = core.find_block(src, r"^\s*(?:pub\s+)?" + kind + r"\s+" + name + r"\b", file, unit=unit)
                text = apply_subst(strip_attrs_docs_vis(it.text))
                out.append(text)
                meta["extraction"].append({"rule": "T4 extract " + kind, "item": name, **it.describe()})
            elif kind == "fn":
                path = parts[3]
                within, name = (path.split("::") + [None])[:2] if "::" in path else (None, path)
                it = core.find_fn(src, name, file, within, unit=unit)
                sig = name_result(apply_subst(strip_attrs_docs_vis(it.signature)))
                body = apply_subst(it.body)
                start_line = sum(x.count("\n") + 1 for x in out) + 1
                out.append(sig + "\n" + "\n".join("        " + x for x in spec) + "\n    " + body)
                d = it.describe(); d["fn"] = path; d["body_sha256"] = core.sha256(it.body)
                meta["functions"].append(d)
                meta["extraction"].append({"rule": "T4 extract fn", "item": path, **it.describe()})
            elif kind == "macrostruct":
                macro = parts[3]
                sub = dict(p.split("=", 1) for p in parts[4:])
                blk = core.find_block(src, r"^macro_rules!\s+" + re.escape(macro) + r"\s*\{", file, unit=unit)
                m = re.search(r"^\s*pub struct \$name\(([^)]*)\);", src[blk.body_open:blk.end], flags=re.M)
                if not m:
                    raise Undecided(unit, "lost-anchor", f"{file}: struct $name in macro {macro}")
                text = m.group(0).strip()
                for k, v in sub.items():
                    text = text.replace("$" + k, v)
                out.append(apply_subst(strip_attrs_docs_vis(text)))
                meta["extraction"].append({"rule": "T4 macro expansion (struct)", "macro": macro, "subst": sub,
                                           "sha256": core.sha256(m.group(0))})
            elif kind == "macrofn":
                macro, fn = parts[3], parts[4]
                sub = dict(p.split("=", 1) for p in parts[5:])
                sub = {k: v.replace("\\s", " ") for k, v in sub.items()}
                it, text = extract_macro_fn(src, macro, fn, sub, file, unit)
                b = text.index("{")
                sig = name_result(apply_subst(strip_attrs_docs_vis(text[:b])))
                out.append(sig + "\n" + "\n".join("        " + x for x in spec) + "\n    " + apply_subst(text[b:]))
                meta["functions"].append({"file": file, "fn": f"{macro}!({sub.get('name', '')})::{fn}",
                                          "sha256": core.sha256(text), "macro_expansion": sub})
                meta["extraction"].append({"rule": "T4 macro expansion", "macro": macro, "fn": fn, "subst": sub,
                                           "sha256": core.sha256(it.text)})
            else:
                raise Undecided(unit, "bad-template", s)
            i = j
            continue
        out.append(ln)
        i += 1
    path = os.path.join(workdir, os.path.splitext(os.path.basename(template_rel))[0] + ".rs")
    text = "\n".join(out)
    open(path, "w").write(text)
    meta["generated_sha256"] = core.sha256(text)
    return path, meta
