"""Unit registry: which contracts (units) decide which property, at which tier."""
from .runner import KaniUnit, VerusUnit, AuditUnit

STUB_ASSUMPTIONS = [
    "Kani stub alloc::fmt::format -> String::new(): error-message text is irrelevant to the obligation; format! does not panic",
    "Kani stub Backtrace::capture -> Backtrace::disabled(): capture has no observable effect",
    "Kani stub <RuntimeError as From<anyhow::Error>>::from -> forget + empty RuntimeError: the conversion does not panic",
    "Kani stub hash::RandomState::new -> fixed keys: HashMap results do not depend on the per-process seed (std contract)",
    "mem::forget of ASTs / heaps / environments at harness end: destructors do not panic",
]
BASE_ASSUMPTIONS = [
    "kani-compiler's MIR->goto translation and CBMC's bit-precise semantics of Rust (trusted tools)",
    "--no-overflow-checks removes only CBMC's float NaN/inf checks (IEEE NaN/inf are legal Blots values); "
    "Rust's own debug-profile overflow/bounds/unwrap/expect/unreachable asserts remain proof obligations",
]

def prep_common(sc):
    """verif_common (stubs) at the crate root; idempotent per scratch."""
    if getattr(sc, "_common", False):
        return
    sc._common = True
    from . import gen
    import os
    sc.append_module("lib.rs", gen.expand("verif_common.rs", os.path.join(sc.dir, "gen")))


def prep_builtin_arbitrary(sc):
    prep_common(sc)
    sc.attach_attr("functions.rs", r"^pub enum BuiltInFunction\b", "#[cfg_attr(kani, derive(kani::Arbitrary))]", "U-ARITY")


# ------------------------------------------------------------------------------------------------
U_ARITY = KaniUnit(
    "U-ARITY", "arity classes: can_accept equals the class definition for all usize; check_arity of every built-in "
    "succeeds exactly on the counts its class accepts (so no args[i] is reached with a rejected count)",
    modules=[("functions.rs", "verif_arity.rs")],
    harnesses=["u_arity_can_accept", "u_arity_builtin_check"],
    functions=[("values.rs", "can_accept", "FunctionArity"), ("functions.rs", "check_arity", "FunctionDef"),
               ("functions.rs", "arity", "BuiltInFunction")],
    prepare=prep_builtin_arbitrary, timeout=300, assumptions=STUB_ASSUMPTIONS[:1])

def prep_heap_ctor(sc):
    prep_common(sc)
    if getattr(sc, "_heapctor", False):
        return
    sc._heapctor = True
    sc.insert_in_impl("heap.rs", "Heap",
                      "    #[cfg(kani)]\n    pub fn verif_empty() -> Self {\n        Self { values: Vec::new() }\n    }\n"
                      "    #[cfg(kani)]\n    pub fn verif_len(&self) -> usize {\n        self.values.len()\n    }\n",
                      "empty-heap constructor and length accessor for harnesses (Heap::new builds an IndexMap of constants: SipHash, >15 min in CBMC)",
                      unit="heap-ctor")


def prep_values(sc):
    prep_builtin_arbitrary(sc)
    prep_heap_ctor(sc)


FMT_BT = STUB_ASSUMPTIONS[:2]

U_CMP_SCALAR = KaniUnit(
    "U-CMP-SCALAR", "Value::equals / Value::compare on all triples of scalars (every f64 but NaN, booleans, null): "
    "equivalence, antisymmetry, trichotomy, Equal iff equals, transitivity, documented order",
    modules=[("values.rs", "verif_values.rs")], harnesses=["u_cmp_scalar_laws"],
    functions=[("values.rs", "equals", "Value"), ("values.rs", "compare", "Value")],
    prepare=prep_values, timeout=900, assumptions=FMT_BT + ["harness heap is empty (Heap::verif_empty): scalars never touch the heap"])

U_CMP_TAGS = KaniUnit(
    "U-CMP-TAGS", "values of different type tags (9x9 off-diagonal, arbitrary possibly dangling pointers, empty heap): "
    "equals = false, compare = None, with no heap dereference; unordered types stay unordered",
    modules=[("values.rs", "verif_values.rs")], harnesses=["u_cmp_tags", "u_cmp_unordered_types"],
    functions=[("values.rs", "equals", "Value"), ("values.rs", "compare", "Value")],
    prepare=prep_values, timeout=900, assumptions=FMT_BT)

U_ORDERING = KaniUnit(
    "U-ORDERING", "check_ordering: Some(o) => Ok(o in expected), None => Err, for every ordering, expected set (<=3) and type pair",
    modules=[("expressions.rs", "verif_expr_ordering.rs")], harnesses=["u_ordering_check"],
    functions=[("expressions.rs", "check_ordering", None)],
    prepare=prep_common, timeout=600, assumptions=FMT_BT[:1])

U_PREC = KaniUnit(
    "U-PREC", "operator_info orders the 26 operators as the C10 table; ^ alone is right-associative; table rows "
    "pair each operator with its grammar rule",
    modules=[("precedence.rs", "verif_prec.rs")],
    harnesses=["u_prec_order", "u_prec_table_rules"],
    functions=[("precedence.rs", "operator_info", None)], timeout=300)

U_PARENS = KaniUnit(
    "U-PARENS", "needs_parens_in_binop wraps every operand that re-parsing would otherwise regroup: looser child, "
    "same-level child on the non-associative side, left operand whose text ends in an open-ended term",
    modules=[("ast_to_source.rs", "verif_printer.rs")],
    harnesses=["u_parens_binary", "u_parens_open_left", "u_parens_open_spine"],
    functions=[("ast_to_source.rs", "needs_parens_in_binop", None), ("ast_to_source.rs", "ends_with_open_term", None),
               ("precedence.rs", "operator_info", None)],
    timeout=600,
    assumptions=["open-ended spines are checked to depth 2 of right-nesting with symbolic operators at every level "
                 "(u_parens_open_spine); deeper spines follow by the same recursion but are not separately discharged"])

U_PARENS_OPERAND = KaniUnit(
    "U-PARENS-OPERAND", "needs_parens_in_prefix / needs_parens_in_postfix wrap every operand kind that binds looser "
    "than a prefix / postfix operator",
    modules=[("ast_to_source.rs", "verif_printer.rs")],
    harnesses=["u_parens_operand"],
    functions=[("ast_to_source.rs", "needs_parens_in_prefix", None), ("ast_to_source.rs", "needs_parens_in_postfix", None)],
    timeout=300)


def _build_heap(wd):
    from . import verus_build
    return verus_build.build("heap.tmpl", wd, "U-HEAP")


U_HEAP = VerusUnit(
    "U-HEAP", "Heap is append-only and pointers are typed: every insert_* appends exactly one cell of the pointer's "
    "kind and returns its index; no earlier cell changes; get/reify return that cell; hence a pointer handed out by an "
    "insert never dangles and never changes kind under further inserts (lemma + client)",
    _build_heap, functions=[],
    assumptions=["Verus: machine arithmetic requires heap length < usize::MAX (stated precondition)",
                 "Verus: LambdaDef, IndexMap<String, Value>, BuiltInFunction are opaque external types",
                 "Heap::new (IndexMap/iterator code) and get_mut/reify_mut (&mut returns) are outside the Verus unit; "
                 "get_mut call sites are covered by the frame audit U-FRAME-AUDIT"],
    dropped=["attributes, doc comments, pub, impl headers (re-wrapped), `-> T` renamed `-> (r: T)`, "
             "IndexMap<String, Value> -> opaque IndexMapStringValue, lifetime 'h moved from the trait impl header to fn reify; "
             "define_pointer! expanded textually for its four invocations; trait HeapPointer dispatch dropped (reify "
             "verified as an inherent method)"])

PROPERTIES = {}


def prop(pid, units, level, explanation, not_decided, assumptions=None):
    PROPERTIES[pid] = {"units": units, "level": level, "explanation": explanation, "not_decided": not_decided,
                       "assumptions": BASE_ASSUMPTIONS + (assumptions or [])}


PRINTER_ASSUMED = [
    "pest's PrattParser implements precedence climbing for the registered operator table (dependency contract)",
    "standard unparsing theorem: wrapping exactly the operands that bind looser (or equal on the non-associative side) "
    "makes parse(print(t)) = t on operator trees; the units prove the decision functions satisfy its hypotheses",
    "the arms of expr_to_source / expr_to_source_with_scope / formatter layouts apply the decision functions to the "
    "operand they print (read, not proved: the arms are format! string assembly)",
]

prop("C07", [U_PARENS, U_PARENS_OPERAND, U_PREC], "other",
     "Contract-based proof (Kani/CBMC, full finite or fully symbolic domains) that the printer's parenthesisation "
     "decision functions wrap every operand that re-parsing would regroup. Decides the 'same expression trees' part of "
     "C07 for operator/term structure; layout, quoting and number text are assumptions or other units.",
     ["line-break placement by formatter.rs is accepted by the grammar", "number literal text round-trip (C16)",
      "comment handling (C09)", "string_to_source / format_record_key text (format!/String code, bounded unit pending)"],
     PRINTER_ASSUMED)

prop("C10", [U_PREC], "other",
     "Contract on operator_info against the statement's precedence table for all 26x26 operator pairs, plus the "
     "(operator, grammar rule) pairing of PRECEDENCE_TABLE. The parser side (grammar.pest, PrattParser) is not decided.",
     ["everything that is a statement about grammar.pest: layout insensitivity, trailing commas, identifiers with "
      "reserved-word prefixes, and/&& spelling equivalence at token level",
      "that build_pratt_parser registers the table in this order (U-PRATT-REG pending)"],
     ["pest PrattParser semantics"])

prop("C01", [U_ARITY, U_HEAP], "other",
     "Absence of panics is Kani's default postcondition (bounds, unwrap/expect, overflow, unreachable). Units: arity "
     "check before indexing, heap typed-pointer invariant (Verus).",
     ["pest parsing of arbitrary UTF-8 and pairs_to_expr unwraps", "ariadne rendering and span-inside-text",
      "serde_json", "formatter string slicing", "native stack depth"],
     STUB_ASSUMPTIONS)

prop("C12", [U_CMP_SCALAR, U_CMP_TAGS, U_ORDERING], "other",
     "Contracts on Value::equals / Value::compare / check_ordering proved for every scalar triple and every pair of "
     "type tags. Strings, lists and records (lexicographic rule, key-order-insensitive record equality) are NOT decided.",
     ["string/list/record comparison (heap recursion: >15 min in CBMC for two 2-element lists; Verus rejects the zip loop)",
      "that each operator arm passes the right expected set (U-BINOP-* units)"],
     STUB_ASSUMPTIONS[:2])


NOT_APPLICABLE = {
    "C02": "pending: frame audit + heap frame units not yet registered",
    "C03": "pending: environment / assignment units not yet registered",
    "C04": "pending: arity/binding units not yet registered",
    "C05": "pending: printer units shared with C07 not yet registered for C05",
    "C06": "pending: JSON scalar round-trip unit not yet registered",
    "C08": "Idempotence is a property of parse o format as a whole: layout is produced by format! string assembly and "
           "re-read by the pest grammar; neither Kani nor Verus can execute or specify either side.",
    "C09": "Comment preservation runs through pest Pairs, Commented<T> vectors of Strings and string assembly; no function "
           "boundary carries it and every step is string/iterator code outside Verus' subset and beyond CBMC's budget.",
    "C11": "pending: scalar arm slice unit not yet registered",
    "C12": "pending: equality/ordering units not yet registered",
    "C13": "pending: gated HOF units",
    "C14": "Laws over list/string/record contents need symbolic sequences through iterator/sort_by/String code inside "
           "BuiltInFunction::call; CBMC could not carry two-element lists through it within 15 min; Verus rejects the text.",
    "C15": "Same obstruction as C14 plus f64 summation 'up to rounding', which neither tool can state.",
    "C16": "Exactness of double<->text is the correctness of core::fmt float printing, dec2flt, ryu and serde_json's "
           "parser - external code far beyond CBMC, with no float/string theory in Verus.",
    "C17": "pending: unit conversion units not yet registered",
    "C18": "pending: call-depth units not yet registered",
    "C19": "Process-level behaviour of main (exit status, stdout JSON, stdin/flags merging via clap/serde_json); no "
           "function-level contract expresses it and Kani cannot model process I/O.",
    "C20": "format_display_number is format!(\"{:.14e}\"), log10, powi, round and string trimming: float-to-text code "
           "CBMC cannot execute symbolically and Verus cannot specify.",
}
