"""Unit registry: which contracts (units) decide which property, at which tier."""
from . import core, gen
from .runner import KaniUnit, VerusUnit, AuditUnit

STUB_ASSUMPTIONS = [
    "Kani stub alloc::fmt::format -> String::new(): error-message text is irrelevant to the obligation; format! does not panic",
    "Kani stub Backtrace::capture -> Backtrace::disabled(): capture has no observable effect",
    "Kani stub <RuntimeError as From<anyhow::Error>>::from -> forget + empty RuntimeError: the conversion does not panic",
    "Kani stub hash::RandomState::new -> fixed keys: HashMap results do not depend on the per-process seed (std contract)",
    "mem::forget of ASTs / heaps / environments at harness end: destructors do not panic",
]
BASE_ASSUMPTIONS = [
    "kani-compiler's MIR->goto translation and CBMC's bit-precise semantics of Rust (trusted tools)",
    "--no-overflow-checks removes only CBMC's float NaN/inf checks (IEEE NaN/inf are legal Blots values); "
    "Rust's own debug-profile overflow/bounds/unwrap/expect/unreachable asserts remain proof obligations",
]

def prep_common(sc):
    """verif_common (stubs) at the crate root; idempotent per scratch."""
    if getattr(sc, "_common", False):
        return
    sc._common = True
    from . import gen
    import os
    sc.append_module("lib.rs", gen.expand("verif_common.rs", os.path.join(sc.dir, "gen")))


def prep_builtin_arbitrary(sc):
    prep_common(sc)
    sc.attach_attr("functions.rs", r"^pub enum BuiltInFunction\b", "#[cfg_attr(kani, derive(kani::Arbitrary))]", "U-ARITY")


# ------------------------------------------------------------------------------------------------
U_ARITY = KaniUnit(
    "U-ARITY", "arity classes: can_accept equals the class definition for all usize; check_arity of every built-in "
    "succeeds exactly on the counts its class accepts (so no args[i] is reached with a rejected count)",
    modules=[("functions.rs", "verif_arity.rs")],
    harnesses=["u_arity_can_accept", "u_arity_builtin_check"],
    functions=[("values.rs", "can_accept", "FunctionArity"), ("functions.rs", "check_arity", "FunctionDef"),
               ("functions.rs", "arity", "BuiltInFunction")],
    prepare=prep_builtin_arbitrary, timeout=300, assumptions=STUB_ASSUMPTIONS[:1])

def prep_heap_ctor(sc):
    prep_common(sc)
    if getattr(sc, "_heapctor", False):
        return
    sc._heapctor = True
    sc.insert_in_impl("heap.rs", "Heap",
                      "    #[cfg(kani)]\n    pub fn verif_empty() -> Self {\n        Self { values: Vec::new() }\n    }\n"
                      "    #[cfg(kani)]\n    pub fn verif_len(&self) -> usize {\n        self.values.len()\n    }\n",
                      "empty-heap constructor and length accessor for harnesses (Heap::new builds an IndexMap of constants: SipHash, >15 min in CBMC)",
                      unit="heap-ctor")


def prep_values(sc):
    prep_builtin_arbitrary(sc)
    prep_heap_ctor(sc)


def prep_vecmap(sc):
    """T5 dependency substitution: redirect `std::collections::HashMap` to verif_common::VecMap under cfg(kani) in the
    four files through which Environment / CapturedScope / call-time bindings flow. Only `use` lines change."""
    prep_common(sc)
    if getattr(sc, "_vecmap", False):
        return
    pair = "#[cfg(not(kani))]\nuse std::collections::HashMap;\n#[cfg(kani)]\nuse crate::verif_common::VecMap as HashMap;"
    edits = [
        ("environment.rs", "use std::collections::HashMap;", pair),
        ("functions.rs", "use std::{cell::RefCell, collections::HashMap, rc::Rc, sync::LazyLock};",
         "use std::{cell::RefCell, rc::Rc, sync::LazyLock};\n" + pair),
        ("values.rs", "use std::{cell::RefCell, collections::HashMap, fmt::Display, rc::Rc};",
         "use std::{cell::RefCell, fmt::Display, rc::Rc};\n" + pair),
        ("expressions.rs", "    collections::{HashMap, HashSet},", "    collections::HashSet,"),
    ]
    for rel, old, new in edits:
        src = sc.read(rel)
        if src.count(old) != 1:
            raise core.Undecided("T5-vecmap", "lost-anchor", f"{rel}: {old!r}")
        src = src.replace(old, new)
        if rel == "expressions.rs":
            # the cfg pair goes after the closing `};` of the `use std::{` group
            anchor = "use std::{\n    cell::RefCell,"
            if src.count(anchor) != 1:
                raise core.Undecided("T5-vecmap", "lost-anchor", f"{rel}: {anchor!r}")
            src = src.replace(anchor, pair + "\n" + anchor)
        sc.write(rel, src)
    sc.injected.append({"rule": "T5 dependency substitution", "files": [e[0] for e in edits],
                        "note": "std::collections::HashMap -> crate::verif_common::VecMap (association list) under cfg(kani); "
                                "only `use` lines are edited"})
    sc._vecmap = True


VECMAP_ASSUMPTION = ("T5: std::collections::HashMap is replaced under cfg(kani) by an association-list map with the same "
                     "interface (finite-map contract of the dependency is assumed; iteration order = insertion order)")


def prep_bind_loop(sc):
    """T3: slice the parameter-binding loop of FunctionDef::call verbatim into a method of FunctionDef."""
    prep_call(sc)
    if getattr(sc, "_bindloop", False):
        return
    from . import slicing
    src = sc.read("functions.rs")
    blk, a0, a1 = slicing.slice_block_after(src, "for (idx, expected_arg) in expected_args.iter().enumerate() {",
                                            "U-BIND-LOOP", "functions.rs")
    text = ("    #[cfg(kani)]\n    #[allow(unused_variables, clippy::all)]\n"
            "    pub(crate) fn verif_bind_loop(&self, expected_args: &Vec<LambdaArg>, args: &Vec<Value>, "
            "heap: &Rc<RefCell<Heap>>, local_bindings: &mut HashMap<String, Value>) -> Result<(), RuntimeError> {\n"
            "        for (idx, expected_arg) in expected_args.iter().enumerate() " + blk + "\n        Ok(())\n    }\n")
    sc.insert_in_impl("functions.rs", "FunctionDef", text,
                      {"bind_loop": {"lines": [core.line_of(src, a0), core.line_of(src, a1)], "sha256": core.sha256(blk)},
                       "dropped": "everything of FunctionDef::call around the loop (arity check, depth guard, self/inputs "
                                  "bindings, environment construction, body evaluation, profiling record)"},
                      unit="U-BIND-LOOP")
    sc._bindloop = True


def prep_call(sc):
    prep_vecmap(sc)
    prep_values(sc)
    # the HashMap::insert no-op stub of U-BIND-SAFE has to name the allocator parameter of HashMap
    sc.prepend_crate_attr("#![cfg_attr(kani, feature(allocator_api))]")


FMT_BT = STUB_ASSUMPTIONS[:2]

U_CMP_SCALAR = KaniUnit(
    "U-CMP-SCALAR", "Value::equals / Value::compare on all triples of scalars (every f64 but NaN, booleans, null): "
    "equivalence, antisymmetry, trichotomy, Equal iff equals, transitivity, documented order",
    modules=[("values.rs", "verif_values.rs")], harnesses=["u_cmp_scalar_laws"],
    functions=[("values.rs", "equals", "Value"), ("values.rs", "compare", "Value")],
    prepare=prep_values, timeout=900, assumptions=FMT_BT + ["harness heap is empty (Heap::verif_empty): scalars never touch the heap"])

U_CMP_TAGS = KaniUnit(
    "U-CMP-TAGS", "values of different type tags (9x9 off-diagonal, arbitrary possibly dangling pointers, empty heap): "
    "equals = false, compare = None, with no heap dereference; unordered types stay unordered",
    modules=[("values.rs", "verif_values.rs")], harnesses=["u_cmp_tags", "u_cmp_unordered_types"],
    functions=[("values.rs", "equals", "Value"), ("values.rs", "compare", "Value")],
    prepare=prep_values, timeout=900, assumptions=FMT_BT)

U_ORDERING = KaniUnit(
    "U-ORDERING", "check_ordering: Some(o) => Ok(o in expected), None => Err, for every ordering, expected set (<=3) and type pair",
    modules=[("expressions.rs", "verif_expr_ordering.rs")], harnesses=["u_ordering_check"],
    functions=[("expressions.rs", "check_ordering", None)],
    prepare=prep_common, timeout=600, assumptions=FMT_BT[:1])

def prep_binop(sc):
    """T3: slice the scalar arm block and the dot-operator arms of evaluate_binary_op_ast verbatim."""
    prep_values(sc)
    if getattr(sc, "_binop", False):
        return
    from . import slicing
    src = sc.read("expressions.rs")
    arm, a0, a1 = slicing.slice_block_after(src, "(lhs, rhs) => match op {", "U-BINOP-SCALAR", "expressions.rs",
                                            within_fn="evaluate_binary_op_ast")
    dot, d0, d1 = slicing.slice_block_after_comment(src, "// Handle dot operators first - they never broadcast", "match op {",
                                                    "U-BINOP-DISPATCH", "expressions.rs", within_fn="evaluate_binary_op_ast")
    text = (
        "#[cfg(kani)]\n#[allow(unused_variables, unreachable_code, clippy::all)]\n"
        "pub(crate) fn verif_binop_scalar_arm(op: BinaryOp, lhs: Value, rhs: Value, heap: Rc<RefCell<Heap>>, "
        "bindings: Rc<Environment>, call_depth: usize, source: Rc<str>, op_span: Span) -> Result<Value, RuntimeError> {\n"
        "    match op " + arm + "\n}\n\n"
        "#[cfg(kani)]\n#[allow(unused_variables, unreachable_code, clippy::all)]\n"
        "pub(crate) fn verif_binop_dot_arms(op: BinaryOp, lhs: Value, rhs: Value, heap: Rc<RefCell<Heap>>, "
        "source: Rc<str>, op_span: Span) -> Result<Value, RuntimeError> {\n"
        "    match op " + dot + "\n"
        "    unsafe { verif_expr_binop::VERIF_FELL_THROUGH = true; }\n    Ok(Value::Null)\n}\n")
    sc.append_text("expressions.rs", text, "T3 arm slicing",
                   {"scalar_arm": {"lines": [core.line_of(src, a0), core.line_of(src, a1)], "sha256": core.sha256(arm)},
                    "dot_arms": {"lines": [core.line_of(src, d0), core.line_of(src, d1)], "sha256": core.sha256(dot)},
                    "dropped": "enclosing dispatch: the two evaluate_ast(left/right) calls, op_span construction, "
                               "`match (lhs, rhs)` patterns (audited by U-BINOP-ROUTE)"})
    sc._binop = True


def prep_bcast(sc):
    """T3: slice the list-scalar and list-list blocks of evaluate_binary_op_ast verbatim."""
    prep_binop(sc)
    if getattr(sc, "_bcast", False):
        return
    from . import slicing
    src = sc.read("expressions.rs")
    ls, a0, a1 = slicing.slice_block_after(src, "(Value::List(list), scalar) | (scalar, Value::List(list)) => {",
                                           "U-BCAST-LS", "expressions.rs", within_fn="evaluate_binary_op_ast")
    ll, b0, b1 = slicing.slice_block_after(src, "(Value::List(list_l), Value::List(list_r)) => {",
                                           "U-BCAST-LL", "expressions.rs", within_fn="evaluate_binary_op_ast")
    text = (
        "#[cfg(kani)]\n#[allow(unused_variables, unreachable_code, clippy::all)]\n"
        "pub(crate) fn verif_binop_list_scalar(op: BinaryOp, lhs: Value, list: crate::heap::ListPointer, scalar: Value, "
        "heap: Rc<RefCell<Heap>>, bindings: Rc<Environment>, call_depth: usize, source: Rc<str>, op_span: Span) "
        "-> Result<Value, RuntimeError> " + ls + "\n\n"
        "#[cfg(kani)]\n#[allow(unused_variables, unreachable_code, clippy::all)]\n"
        "pub(crate) fn verif_binop_list_list(op: BinaryOp, list_l: crate::heap::ListPointer, list_r: crate::heap::ListPointer, "
        "heap: Rc<RefCell<Heap>>, bindings: Rc<Environment>, call_depth: usize, source: Rc<str>, op_span: Span) "
        "-> Result<Value, RuntimeError> " + ll + "\n")
    sc.append_text("expressions.rs", text, "T3 arm slicing",
                   {"list_scalar_block": {"lines": [core.line_of(src, a0), core.line_of(src, a1)], "sha256": core.sha256(ls)},
                    "list_list_block": {"lines": [core.line_of(src, b0), core.line_of(src, b1)], "sha256": core.sha256(ll)},
                    "dropped": "the `match (lhs, rhs)` pattern that binds list / scalar / list_l / list_r (audited by U-BINOP-ROUTE)"})
    sc._bcast = True


def audit_binop_route():
    """Frame audit: in `match (lhs, rhs)` of evaluate_binary_op_ast every arm before the final `(lhs, rhs)` arm
    requires a list operand, so every scalar pair reaches the scalar arm block proved by U-BINOP-SCALAR."""
    import os
    from . import slicing
    src = open(os.path.join(core.REPO, "blots-core", "src", "expressions.rs")).read()
    blk, b0, b1 = slicing.slice_block_after(src, "match (lhs, rhs) {", "U-BINOP-ROUTE", "expressions.rs",
                                            within_fn="evaluate_binary_op_ast")
    pats = slicing.top_level_arm_patterns(blk)
    obs = []
    if not pats or pats[-1].replace(" ", "") != "(lhs,rhs)":
        return [{"case": "last-arm-is-the-catch-all-scalar-arm", "ok": False, "detail": f"patterns: {pats}"}]
    obs.append({"case": "last-arm-is-the-catch-all-scalar-arm", "ok": True})
    for i, p in enumerate(pats[:-1]):
        obs.append({"case": f"arm-{i}-requires-a-list-operand", "ok": "Value::List(" in p, "detail": p[:200]})
    # the dot-operator block precedes the `match (lhs, rhs)` dispatch, and nothing else stands between them
    dot = src.find("// Handle dot operators first - they never broadcast")
    obs.append({"case": "dot-operator-block-precedes-dispatch", "ok": 0 < dot < b0})
    try:
        dblk, d0, d1 = slicing.slice_block_after_comment(src, "// Handle dot operators first - they never broadcast", "match op {",
                                                         "U-BINOP-ROUTE", "expressions.rs", within_fn="evaluate_binary_op_ast")
        m0 = src.rfind("match (lhs, rhs)", 0, b0 + 1)
        between = src[d1:m0]
        import re as _re
        between = _re.sub(r"//[^\n]*", "", between).strip()
        obs.append({"case": "no-statement-between-dot-block-and-dispatch", "ok": between == "", "detail": between[:200]})
        # the tail of the function is the dispatch itself (its value is the function's value)
        fn = core.find_fn(src, "evaluate_binary_op_ast", "expressions.rs", unit="U-BINOP-ROUTE")
        tail = _re.sub(r"//[^\n]*", "", src[b1:fn.end - 1]).strip()
        obs.append({"case": "dispatch-is-the-tail-expression-of-the-function", "ok": tail == "", "detail": tail[:200]})
    except core.Undecided as e:
        obs.append({"case": "no-statement-between-dot-block-and-dispatch", "ok": False, "detail": str(e)})
    return obs


BINOP_STUBS = STUB_ASSUMPTIONS[:4] + [
    "Kani stub FunctionDef::call -> probe (records this_value/args/call_depth, returns an arbitrary scalar or an error): "
    "the arm is verified against the callee's contract, not its body",
    "Kani stub Value::stringify_internal -> empty string (only used to build error messages)",
    "operands range over numbers (all f64 incl. NaN/inf), booleans, null and built-in functions; strings, lists, records "
    "and lambdas need heap cells and are NOT covered (string concatenation by + is not decided)",
    "f64::powf is a primitive: ^ is only proved to return a number for two numbers",
    "* / % are proved only for NaN propagation, fixed witnesses pinning operation and operand order, and failure on "
    "non-numbers - NOT bit-exactly for all operands: every query that makes the solver reason about the multiplier / "
    "divider / fmod circuits (bit-exact second copy, sign rule, neutral elements) exceeded 20 min; CBMC's SMT back end crashes here",
]

U_BINOP_SCALAR = KaniUnit(
    "U-BINOP-SCALAR", "scalar arm block of evaluate_binary_op_ast (sliced verbatim): IEEE results bit-exact for + - * / %, "
    "comparisons follow Value::compare/equals, and/or require booleans, ?? returns right exactly when left is null, "
    "via/into apply the function once to the left operand; all 20 non-dot operators x all scalar operand pairs",
    modules=[("expressions.rs", "verif_expr_binop.rs")], harnesses=gen.binop_scalar_harness_names(),
    functions=[("expressions.rs", "evaluate_binary_op_ast", None)],
    prepare=prep_binop, timeout=1500, assumptions=BINOP_STUBS,
    dropped=["T3: the dispatch around the arm block (operand evaluation, op_span, match (lhs, rhs) patterns)"])

U_BINOP_DISPATCH = KaniUnit(
    "U-BINOP-DISPATCH", "dot-operator arms of evaluate_binary_op_ast (sliced verbatim): the six dot comparisons return "
    "Bool(equals) / its negation / check_ordering(compare) before the broadcasting dispatch, and no other operator returns there",
    modules=[("expressions.rs", "verif_expr_binop.rs")], harnesses=["u_binop_dot"],
    functions=[("expressions.rs", "evaluate_binary_op_ast", None)],
    prepare=prep_binop, timeout=1500, assumptions=BINOP_STUBS[:3],
    dropped=["T3: as U-BINOP-SCALAR"])

BCAST_ASSUME = BINOP_STUBS[:4] + [
    "Kani stub FunctionDef::call -> assert(false): the 17 broadcasting operators never call a function",
    "list elements and the scalar range over numbers (all f64), booleans and null; strings/nested lists as elements are not covered",
    "expected element results are computed by the scalar arm block itself (proved against the statement by U-BINOP-SCALAR)"]

U_BCAST_LS = KaniUnit(
    "U-BCAST-LS", "list-scalar block of evaluate_binary_op_ast (sliced verbatim), both operand orders: result is the list of "
    "scalar-arm results element by element in order; fails exactly when some element operation fails",
    modules=[("expressions.rs", "verif_expr_binop.rs"), ("expressions.rs", "verif_expr_bcast.rs")],
    harnesses=gen.bcast_harness_names("ls"),
    functions=[("expressions.rs", "evaluate_binary_op_ast", None)],
    prepare=prep_bcast, timeout=3000, tier="thorough", complete=False, bound="lists of length 0..=2", assumptions=BCAST_ASSUME,
    dropped=["T3: the match (lhs, rhs) pattern around the block"])

U_BCAST_LL = KaniUnit(
    "U-BCAST-LL", "list-list block of evaluate_binary_op_ast (sliced verbatim): different lengths fail; otherwise the list of "
    "scalar-arm results element by element in order; fails exactly when some element operation fails",
    modules=[("expressions.rs", "verif_expr_binop.rs"), ("expressions.rs", "verif_expr_bcast.rs")],
    harnesses=gen.bcast_harness_names("ll"),
    functions=[("expressions.rs", "evaluate_binary_op_ast", None)],
    prepare=prep_bcast, timeout=3000, tier="thorough", complete=False, bound="lists of length 0..=2 (each side)", assumptions=BCAST_ASSUME,
    dropped=["T3: the match (lhs, rhs) pattern around the block"])

U_HOF = KaniUnit(
    "U-HOF", "`list via f` and map(list, f), `list where p` and filter(list, p): the same callback sequence (element, plus "
    "0-based index iff the callee accepts two arguments, in order, self-reference = the function value), results assembled / "
    "filtered in order, first failing callback fails the form",
    modules=[("expressions.rs", "verif_expr_binop.rs"), ("expressions.rs", "verif_hof.rs")],
    harnesses=["u_hof_via_unary", "u_hof_via_indexed", "u_hof_map_unary", "u_hof_map_indexed",
               "u_hof_where_unary", "u_hof_where_indexed", "u_hof_filter_unary", "u_hof_filter_indexed"],
    functions=[("expressions.rs", "evaluate_binary_op_ast", None), ("functions.rs", "call", "BuiltInFunction")],
    prepare=prep_bcast, timeout=3000, tier="thorough", complete=False, bound="lists of length 0..=2; callee arity classes "
    "Exact(1) and Between(1,2)", assumptions=BCAST_ASSUME[:4] + [
        "Kani stub FunctionDef::call -> scripted probe (records arguments / self-reference / depth of each invocation, "
        "returns a chosen value or failure): the forms are verified against the callback's contract, not its body"],
    dropped=["T3: as U-BCAST-LS (via / where arms are part of the list-scalar block)"])

U_BINOP_ROUTE = AuditUnit(
    "U-BINOP-ROUTE", "every arm of `match (lhs, rhs)` before the scalar arm requires a list operand; the dot block precedes it",
    audit_binop_route, functions=[("expressions.rs", "evaluate_binary_op_ast", None)])

CALL_STUBS = [STUB_ASSUMPTIONS[0], STUB_ASSUMPTIONS[3],
              "Kani stub time::Instant::now -> fixed instant (profiling statistics only)",
              "Kani stub FunctionDef::get_name -> empty string (used for error text and profiling records only)",
              "Kani stubs (probes) for expressions::evaluate_ast and BuiltInFunction::call: record depth / environment / "
              "argument count and return an arbitrary scalar or error (callee contract, not callee body)"]

U_DEPTH = KaniUnit(
    "U-DEPTH", "FunctionDef::call: a rejected argument count or call_depth > 1000 is an error before the callee runs; "
    "otherwise the callee runs exactly once with call_depth + 1 (all built-ins; the anonymous nullary lambda with an empty "
    "captured scope; all usize depths), and the lambda body's result / failure is the call's",
    modules=[("functions.rs", "verif_call.rs")], harnesses=["u_depth_builtin", "u_depth_lambda"],
    functions=[("functions.rs", "call", "FunctionDef"), ("functions.rs", "check_arity", "FunctionDef")],
    prepare=prep_call, timeout=1200, assumptions=CALL_STUBS)

U_ARITY_LAMBDA = KaniUnit(
    "U-ARITY-LAMBDA", "LambdaDef::get_arity / check_arity for every parameter list of the documented shape (required*, "
    "optional*, at most one trailing rest; <= 3 parameters): Exact / Between / AtLeast, and any other count is an error",
    modules=[("functions.rs", "verif_call.rs")], harnesses=["u_arity_lambda"],
    functions=[("values.rs", "get_arity", "LambdaDef"), ("functions.rs", "check_arity", "FunctionDef")],
    prepare=prep_call, timeout=1200, complete=False, bound="parameter lists of length <= 3",
    assumptions=CALL_STUBS[:2] + CALL_STUBS[3:4])

U_BIND_LOOP = KaniUnit(
    "U-BIND-LOOP", "parameter-binding loop of FunctionDef::call (sliced verbatim): for parameter lists in ANY order of "
    "kinds (<= 2 parameters) and every accepted argument count (<= 4): no panic; required -> argument at its position, "
    "optional -> argument or null, rest -> fresh list of the remaining arguments in order; a required parameter left "
    "without an argument is an error (never for the documented shapes); exactly the parameters are bound",
    modules=[("functions.rs", "verif_call.rs")], harnesses=["u_bind_loop"],
    functions=[("functions.rs", "call", "FunctionDef")],
    prepare=prep_bind_loop, timeout=1500, complete=False, bound="<= 2 parameters, <= 4 arguments",
    assumptions=[STUB_ASSUMPTIONS[0], CALL_STUBS[3], VECMAP_ASSUMPTION],
    dropped=["T3: the rest of FunctionDef::call around the binding loop"])

U_CONVERT = KaniUnit(
    "U-CONVERT", "Unit::convert_to_base / convert_from_base are bit-exactly v*c, v/c, c/v (inf at 0) and the temperature "
    "maps for all f64; units::convert fails across categories and on unresolved identifiers and otherwise composes "
    "to-base / from-base (resolve_unit replaced by its contract)",
    modules=[("units.rs", "verif_units.rs")], harnesses=["u_convert_formulas", "u_convert_convert"],
    functions=[("units.rs", "convert_to_base", "Unit"), ("units.rs", "convert_from_base", "Unit"), ("units.rs", "convert", None)],
    prepare=prep_common, timeout=900,
    assumptions=STUB_ASSUMPTIONS[:2] + ["Kani stub units::resolve_unit -> arbitrary unit (any category, any coefficient, any "
                                        "temperature pair) or error: convert is verified against resolve_unit's contract"])

U_JSON_SCALAR = KaniUnit(
    "U-JSON-SCALAR", "SerializableValue::from_json(to_json(v)) == v and from_value(to_value(v)) == v, bit-exactly, for every "
    "finite f64 (incl. -0), booleans and null",
    modules=[("values.rs", "verif_json.rs")], harnesses=["u_json_scalar_roundtrip", "u_json_scalar_heap_roundtrip"],
    functions=[("values.rs", "from_json", "SerializableValue"), ("values.rs", "to_json", "SerializableValue"),
               ("values.rs", "from_value", "SerializableValue"), ("values.rs", "to_value", "SerializableValue")],
    prepare=prep_values, timeout=1500,
    assumptions=FMT_BT + ["serde_json::Number::from_f64 / as_f64 are verified as compiled (real dependency code, no stub)"])

def prep_assign(sc):
    """T3: slice the Expr::Assignment arm of evaluate_ast verbatim."""
    prep_values(sc)
    prep_vecmap(sc)
    if getattr(sc, "_assign", False):
        return
    from . import slicing
    src = sc.read("expressions.rs")
    arm, a0, a1 = slicing.slice_block_after(src, "Expr::Assignment { ident, value } => {", "U-ASSIGN", "expressions.rs",
                                            within_fn="evaluate_ast")
    text = ("#[cfg(kani)]\n#[allow(unused_variables, unreachable_code, clippy::all)]\n"
            "pub(crate) fn verif_assignment_arm(expr: &SpannedExpr, ident: &String, value: &Box<SpannedExpr>, "
            "heap: Rc<RefCell<Heap>>, bindings: Rc<Environment>, call_depth: usize, source: Rc<str>) "
            "-> Result<Value, RuntimeError> " + arm + "\n")
    sc.append_text("expressions.rs", text, "T3 arm slicing",
                   {"assignment_arm": {"lines": [core.line_of(src, a0), core.line_of(src, a1)], "sha256": core.sha256(arm)},
                    "dropped": "enclosing `match &expr.node` dispatch of evaluate_ast"})
    sc._assign = True


def prep_doblock(sc):
    """T3: slice the Expr::DoBlock arm of evaluate_ast verbatim."""
    prep_values(sc)
    prep_vecmap(sc)
    if getattr(sc, "_doblock", False):
        return
    from . import slicing
    src = sc.read("expressions.rs")
    it = core.find_fn(src, "evaluate_ast", "expressions.rs", unit="U-DOBLOCK")
    a = core.find_code(src, "Expr::DoBlock {", it.body_open, it.end)
    if a < 0:
        raise core.Undecided("U-DOBLOCK", "lost-anchor", "Expr::DoBlock arm of evaluate_ast")
    pat_end = core.match_brace(src, a + len("Expr::DoBlock "))
    arrow = core.find_code(src, "=>", pat_end, it.end)
    b = core.find_code(src, "{", arrow, it.end)
    pattern = " ".join(src[a:pat_end + 1].split())
    if pattern != "Expr::DoBlock { statements, return_expr, }" or src[arrow + 2:b].strip() != "":
        raise core.Undecided("U-DOBLOCK", "lost-anchor", f"unexpected DoBlock arm shape: {pattern!r}")
    e = core.match_brace(src, b)
    arm = src[b:e + 1]
    text = ("#[cfg(kani)]\n#[allow(unused_variables, unreachable_code, clippy::all)]\n"
            "pub(crate) fn verif_doblock_arm(statements: &Vec<Commented<SpannedExpr>>, return_expr: &Box<Commented<SpannedExpr>>, "
            "heap: Rc<RefCell<Heap>>, bindings: Rc<Environment>, call_depth: usize, source: Rc<str>) "
            "-> Result<Value, RuntimeError> " + arm + "\n")
    sc.append_text("expressions.rs", text, "T3 arm slicing",
                   {"doblock_arm": {"lines": [core.line_of(src, b), core.line_of(src, e)], "sha256": core.sha256(arm)},
                    "dropped": "enclosing `match &expr.node` dispatch of evaluate_ast"})
    sc._doblock = True


U_DOBLOCK = KaniUnit(
    "U-DOBLOCK", "Expr::DoBlock arm of evaluate_ast (sliced verbatim): statements and return expression are evaluated in order "
    "in ONE fresh scope extending the current one, at the same call depth; a failing statement fails the block at once; what "
    "the block binds or shadows is neither visible in nor changes the enclosing scope",
    modules=[("expressions.rs", "verif_doblock.rs")], harnesses=["u_doblock_0", "u_doblock_1", "u_doblock_2"],
    functions=[("expressions.rs", "evaluate_ast", None), ("environment.rs", "extend", "Environment")],
    prepare=prep_doblock, timeout=900, complete=False, bound="blocks of 0..=2 statements",
    assumptions=[STUB_ASSUMPTIONS[0], VECMAP_ASSUMPTION,
                 "Kani stub (probe) for evaluate_do_block_expr: binds a block-local name and shadows an outer one in the scope "
                 "it is given, checks that scope, returns a value or a scripted failure"],
    dropped=["T3: the match dispatch around the DoBlock arm"])


def audit_env_insert_sites():
    """Frame audit (C03): `bindings.insert(` / Environment::insert call sites in blots-core are exactly the Assignment arm
    of evaluate_ast and evaluate_do_block_expr (both under contract)."""
    import os
    import re
    obs = []
    allowed = {("expressions.rs", "evaluate_ast"), ("expressions.rs", "evaluate_do_block_expr")}
    root = os.path.join(core.REPO, "blots-core", "src")
    for fn in sorted(os.listdir(root)):
        if not fn.endswith(".rs") or fn in ("tests.rs", "do_block_tests.rs", "environment.rs"):
            continue
        src = open(os.path.join(root, fn)).read()
        cut = src.find("#[cfg(test)]")
        code = src if cut < 0 else src[:cut]
        for m in re.finditer(r"\b(\w*bindings|\w*env\w*)\.insert\(", code):
            if core.find_code(code, m.group(0), m.start(), m.end()) != m.start():
                continue
            if m.group(1) in ("local_bindings",):
                continue  # a plain HashMap under construction in FunctionDef::call (covered by U-BIND)
            # enclosing fn
            encl = None
            for fm in re.finditer(r"^[ \t]*(?:pub(?:\([a-z]+\))?\s+)?fn\s+(\w+)", code[:m.start()], flags=re.M):
                encl = fm.group(1)
            ok = (fn, encl) in allowed
            obs.append({"case": f"insert-site:{fn}:{encl}:{m.group(1)}", "ok": ok,
                        "detail": f"line {core.line_of(code, m.start())}"})
    if not obs:
        obs.append({"case": "insert-sites-found", "ok": False, "detail": "no environment insert site found (anchor lost)"})
    return obs


ASSIGN_STUBS = [STUB_ASSUMPTIONS[0], VECMAP_ASSUMPTION,
                "Kani stub (probe) for expressions::evaluate_ast on the right-hand side: records scope identity / depth, "
                "returns an arbitrary scalar or error (lambda values, which also set LambdaDef.name, are not covered)",
                "names range over a fixed pool forcing every case of the statement (fresh, locally bound, bound in an "
                "outer scope, built-in, inputs, constants, each keyword the evaluator can see)"]

U_ASSIGN = KaniUnit(
    "U-ASSIGN", "Expr::Assignment arm of evaluate_ast (sliced verbatim): keywords, built-in names, inputs, constants and "
    "visible names are refused without evaluating the right-hand side; otherwise the RHS is evaluated once, a failure "
    "binds nothing, success binds exactly that name locally; all other bindings and the outer scope are unchanged",
    modules=[("expressions.rs", "verif_expr_assign.rs")], harnesses=["u_assign_toplevel_a", "u_assign_toplevel_b", "u_assign_toplevel_c"],
    functions=[("expressions.rs", "evaluate_ast", None), ("environment.rs", "insert", "Environment"),
               ("environment.rs", "contains_key", "Environment")],
    prepare=prep_assign, timeout=1800, complete=False, bound="name pool of 16 identifiers; scope chain of depth 2",
    assumptions=ASSIGN_STUBS, dropped=["T3: the match dispatch around the Assignment arm"])

U_DOASSIGN = KaniUnit(
    "U-DOASSIGN", "evaluate_do_block_expr: keywords refused; otherwise evaluates once in the block scope; a block-local "
    "binding may shadow but never alters or leaks into the enclosing scope",
    modules=[("expressions.rs", "verif_expr_assign.rs")], harnesses=["u_doassign_a", "u_doassign_b", "u_doassign_c"],
    functions=[("expressions.rs", "evaluate_do_block_expr", None)],
    prepare=prep_assign, timeout=1800, complete=False, bound="name pool of 12 identifiers; scope chain of depth 3",
    assumptions=ASSIGN_STUBS)

U_ENV = KaniUnit(
    "U-ENV", "Environment scope chain: a fresh child sees exactly the parent's view; insert into a child never changes the "
    "parent's view; local overrides parent; contains_key iff get is Some; contains_key_local is exactly the local names",
    modules=[("expressions.rs", "verif_expr_assign.rs")], harnesses=["u_env_chain"],
    functions=[("environment.rs", "get", "Environment"), ("environment.rs", "insert", "Environment"),
               ("environment.rs", "contains_key", "Environment"), ("environment.rs", "contains_key_local", "Environment"),
               ("environment.rs", "extend", "Environment")],
    prepare=prep_assign, timeout=1800, complete=False, bound="3 names, chain depth 2, arbitrary initial parent bindings",
    assumptions=[VECMAP_ASSUMPTION])

SITE_STUBS = [STUB_ASSUMPTIONS[0], VECMAP_ASSUMPTION,
              "Kani stubs (probes) for the evaluator call made by the site (evaluate_ast / evaluate_do_block_expr): inspect the "
              "scope they are handed, bind what a statement would bind, return a fixed value or a scripted failure; values are "
              "numbers only (a lambda value, which also sets LambdaDef.name, is not covered)"]


def prep_scope_sites(sc):
    prep_assign(sc)
    prep_doblock(sc)


U_ASSIGN_GUARD = KaniUnit(
    "U-ASSIGN-GUARD", "Expr::Assignment arm of evaluate_ast (sliced verbatim): every keyword the evaluator can see, built-in "
    "names, `inputs`, `constants` and any name visible in the current or an enclosing scope are refused WITHOUT evaluating "
    "the right-hand side and without changing any binding; a fresh name evaluates the right-hand side once and is bound to "
    "its value; a failing right-hand side binds nothing",
    modules=[("expressions.rs", "verif_assign_guard.rs")],
    harnesses=["u_assign_guard_a", "u_assign_guard_b", "u_assign_guard_c", "u_assign_guard_rebind", "u_assign_guard_failing_rhs"],
    functions=[("expressions.rs", "evaluate_ast", None), ("environment.rs", "contains_key", "Environment"),
               ("environment.rs", "insert", "Environment")],
    prepare=prep_assign, timeout=900, complete=False,
    bound="13 reserved names (constants, inputs, if, then, else, true, false, null, and, or, sqrt, map) + fresh / visible names; "
          "scope chain depth <= 2",
    assumptions=SITE_STUBS, dropped=["T3: the match dispatch around the Assignment arm"])

U_DOASSIGN2 = KaniUnit(
    "U-DOASSIGN", "evaluate_do_block_expr: the nine keywords are refused without evaluating the right-hand side; any other name "
    "(fresh or shadowing an outer one) is bound in the block scope to the evaluated value; the enclosing scope is unchanged "
    "and never sees the block's names",
    modules=[("expressions.rs", "verif_scope_sites.rs")],
    harnesses=["u_doassign_names", "u_doassign_keywords_a", "u_doassign_keywords_b"],
    functions=[("expressions.rs", "evaluate_do_block_expr", None)],
    prepare=prep_scope_sites, timeout=900, complete=False, bound="name pool of 11 identifiers; scope chain depth 2",
    assumptions=SITE_STUBS)

U_DOBLOCK2 = KaniUnit(
    "U-DOBLOCK", "Expr::DoBlock arm of evaluate_ast (sliced verbatim): statements then the return expression are evaluated once "
    "each, in order, at the same call depth, in ONE fresh scope that sees the enclosing names; the first failure fails the "
    "block; what the block binds never reaches the enclosing scope",
    modules=[("expressions.rs", "verif_scope_sites.rs")], harnesses=["u_doblock_ok", "u_doblock_failing"],
    functions=[("expressions.rs", "evaluate_ast", None), ("environment.rs", "extend", "Environment")],
    prepare=prep_scope_sites, timeout=2400, complete=False, bound="blocks of 0..=2 statements, every failure position",
    assumptions=SITE_STUBS, dropped=["T3: the match dispatch around the DoBlock arm"])

U_ENV_AUDIT = AuditUnit(
    "U-ENV-AUDIT", "every Environment::insert call site in blots-core is in evaluate_ast's Assignment arm or "
    "evaluate_do_block_expr (both under contract)", audit_env_insert_sites)

U_QUOTE = KaniUnit(
    "U-QUOTE", "is_valid_identifier returns true only for identifiers of the grammar (ASCII letter/underscore start, ASCII "
    "alphanumeric/underscore rest, not a reserved word): a 24-string pool (incl. non-ASCII letters after an ASCII start, reserved "
    "words and their prefixes) and the 12 reserved words; symbolic strings of <= 3 characters timed out at 10 min and were dropped",
    modules=[("ast_to_source.rs", "verif_quote.rs")],
    harnesses=["u_quote_identifier_pool", "u_quote_reserved"],
    functions=[("ast_to_source.rs", "is_valid_identifier", None)],
    prepare=prep_common, timeout=900, complete=False,
    bound="pool of 24 constant strings + 12 reserved words",
    assumptions=["string_to_source / quote_string_literal / format_record_key's quoted and concatenated forms are read, not "
                 "proved (real format! is intractable for CBMC: >10 min for one constant string; stubbed format! hides the text)"])

BUILTIN_STUBS = STUB_ASSUMPTIONS[:4] + [
    "Kani stub FunctionDef::call -> assert(false): these built-in arms take no callback",
    "BuiltInFunction::call is entered with a CONSTANT built-in, so only that arm is explored (the function is real, unsliced)"]

def prep_factorial(sc):
    prep_values(sc)
    if getattr(sc, "_fact", False):
        return
    from . import slicing
    src = sc.read("expressions.rs")
    arm, a0, a1 = slicing.slice_block_after(src, "PostfixOp::Factorial => {", "U-GUARD-FACTORIAL", "expressions.rs",
                                            within_fn="evaluate_ast")
    text = ("#[cfg(kani)]\n#[allow(unused_variables, unreachable_code, clippy::all)]\n"
            "pub(crate) fn verif_factorial_arm(val: Value, expr: &SpannedExpr, source: Rc<str>) -> Result<Value, RuntimeError> "
            + arm + "\n")
    sc.append_text("expressions.rs", text, "T3 arm slicing",
                   {"factorial_arm": {"lines": [core.line_of(src, a0), core.line_of(src, a1)], "sha256": core.sha256(arm)},
                    "dropped": "the operand evaluation `let val = evaluate_ast(expr, ..)?` and the `match op` around the arm"})
    sc._fact = True


U_GUARD_FACTORIAL = KaniUnit(
    "U-GUARD-FACTORIAL", "factorial arm of evaluate_ast (sliced verbatim): no panic in the guard arithmetic for every f64 "
    "(incl. 2^64, NaN, infinities); non-integers / negatives fail; above 170 the result is infinity",
    modules=[("expressions.rs", "verif_factorial.rs")], harnesses=["u_guard_factorial"],
    functions=[("expressions.rs", "evaluate_ast", None)],
    prepare=prep_factorial, timeout=900, extra=("--no-unwinding-checks",),
    assumptions=STUB_ASSUMPTIONS[:3] + ["--no-unwinding-checks: the product loop is cut at 2 iterations (bounded); guard arithmetic complete"],
    dropped=["T3: operand evaluation and match dispatch around the arm"])

U_UCMP = KaniUnit(
    "U-UCMP", "ugt/ult/ugte/ulte arms of BuiltInFunction::call: equal to the ordering test when Value::compare is Some, false "
    "when it is None; never an error; all scalar pairs incl. booleans, null, built-ins, mixed types",
    modules=[("functions.rs", "verif_builtins.rs")], harnesses=["u_ucmp_ugt", "u_ucmp_ult", "u_ucmp_ugte", "u_ucmp_ulte"],
    functions=[("functions.rs", "call", "BuiltInFunction")],
    prepare=prep_values, timeout=1500, assumptions=BUILTIN_STUBS)

U_GUARD = KaniUnit(
    "U-GUARD", "numeric guards of range / round / abs / floor / ceil / trunc / to_bool through the real BuiltInFunction::call: "
    "no panic (overflow, cast, index) for EVERY f64 argument; range rejects unordered, non-finite and over-long spans",
    modules=[("functions.rs", "verif_builtins.rs")], harnesses=["u_guard_range", "u_guard_round", "u_guard_unary_math"],
    functions=[("functions.rs", "call", "BuiltInFunction")],
    prepare=prep_values, timeout=1500, extra=("--no-unwinding-checks",),
    assumptions=BUILTIN_STUBS + ["--no-unwinding-checks: loops after a guard (range's list construction) are cut at 2 "
                                 "iterations; obligations up to the loop are complete over all f64, loop bodies are bounded"])

def audit_heap_mutation_sites():
    """Frame audit (C02): a heap cell can only change through Heap::get_mut / HeapPointer::reify_mut. Every call site in
    the three crates must be one of the two allow-listed sites, and each of those assigns only `lambda_def.name`."""
    import os
    import re
    obs = []
    allowed = {("blots-core/src/expressions.rs", "evaluate_ast"), ("blots-core/src/expressions.rs", "evaluate_do_block_expr")}
    files = []
    for crate in ("blots-core/src", "blots/src", "blots-wasm/src"):
        d = os.path.join(core.REPO, crate)
        if os.path.isdir(d):
            files += [os.path.join(crate, f) for f in sorted(os.listdir(d)) if f.endswith(".rs")]
    seen = 0
    for rel in files:
        if rel.endswith(("tests.rs", "do_block_tests.rs", "wasm_tests.rs")):
            continue
        src = open(os.path.join(core.REPO, rel)).read()
        cut = src.find("#[cfg(test)]")
        code = src if cut < 0 else src[:cut]
        for m in re.finditer(r"\.(get_mut|reify_mut)\(", code):
            if core.find_code(code, m.group(0), m.start(), m.end()) != m.start():
                continue
            if rel.endswith("heap.rs"):
                continue  # the definitions themselves (get_mut / reify_mut forwarders)
            recv = code[max(0, m.start() - 40):m.start()]
            # reify_mut exists only on heap pointers: always a heap mutation site. get_mut also exists on maps and
            # vectors: counted only when the receiver expression names a heap
            if m.group(1) == "get_mut" and "heap" not in recv.lower():
                continue
            encl = None
            for fm in re.finditer(r"^[ \t]*(?:pub(?:\([a-z]+\))?\s+)?fn\s+(\w+)", code[:m.start()], flags=re.M):
                encl = fm.group(1)
            seen += 1
            ok = (rel, encl) in allowed
            detail = f"line {core.line_of(code, m.start())}"
            if ok:
                # the statement that uses the mutable cell must only assign lambda_def.name
                stmt_end = code.find("}", m.end())
                blk = code[m.end():code.find("\n        }", m.end()) if code.find("\n        }", m.end()) > 0 else stmt_end]
                assigns = re.findall(r"(\w+(?:\.\w+)*)\s*=\s*[^=]", blk[:400])
                bad = [a for a in assigns if a != "lambda_def.name"]
                ok = not bad
                detail += f"; assigns {assigns}"
            obs.append({"case": f"heap-mutation-site:{rel}:{encl}", "ok": ok, "detail": detail})
    obs.append({"case": "two-allow-listed-heap-mutation-sites-found", "ok": seen >= 2, "detail": f"{seen} sites"})
    return obs


GLOBAL_STATE_ALLOWED = {
    # name -> why it cannot carry a value from one evaluation to another
    "FUNCTION_CALLS": "profiling records (names and timestamps), never read by the evaluator",
    "BUILTIN_FUNCTION_NAMES": "immutable after initialisation (list of built-in names)",
    "CONSTANTS": "immutable after initialisation (pi, e, max_value, min_value)",
    "CALL_COUNT": "parse counter for profiling, never read by the evaluator",
    "TOTAL_PARSE_TIME": "parse timer for profiling, never read by the evaluator",
    "PRECEDENCE_TABLE": "immutable table",
    "PRATT": "immutable after initialisation (the Pratt parser)",
}


def audit_global_state():
    """Frame audit (C02): history dependence needs state that outlives an evaluation. Every `static` / `thread_local!` /
    lazily initialised cell declared in blots-core (tests excluded) must be one of the allow-listed ones."""
    import os
    import re
    obs = []
    root = os.path.join(core.REPO, "blots-core", "src")
    found = set()
    for fn in sorted(os.listdir(root)):
        if not fn.endswith(".rs") or fn in ("tests.rs", "do_block_tests.rs"):
            continue
        src = open(os.path.join(root, fn)).read()
        cut = src.find("#[cfg(test)]")
        code = src if cut < 0 else src[:cut]
        for m in re.finditer(r"\bstatic\s+(?:mut\s+)?([A-Za-z_][A-Za-z0-9_]*)\s*:", code):
            if core.find_code(code, m.group(0), m.start(), m.end()) != m.start():
                continue
            name = m.group(1)
            found.add(name)
            obs.append({"case": f"global-state:{fn}:{name}", "ok": name in GLOBAL_STATE_ALLOWED,
                        "detail": GLOBAL_STATE_ALLOWED.get(name, "not on the allow-list: state that outlives an evaluation")})
        for m in re.finditer(r"\b(thread_local!|lazy_static!)", code):
            if core.find_code(code, m.group(0), m.start(), m.end()) != m.start():
                continue
            obs.append({"case": f"global-state:{fn}:{m.group(1)}@line{core.line_of(code, m.start())}", "ok": False,
                        "detail": "thread-local / lazy static state is not on the allow-list"})
    obs.append({"case": "global-state-scan-saw-the-known-statics", "ok": {"FUNCTION_CALLS", "CONSTANTS"} <= found,
                "detail": f"found {sorted(found)}"})
    return obs


U_GLOBAL_STATE = AuditUnit(
    "U-GLOBAL-STATE", "the only state in blots-core that outlives an evaluation is the allow-listed profiling counters and "
    "immutable tables; any other static / thread_local is a channel for history dependence", audit_global_state)

U_FRAME_AUDIT = AuditUnit(
    "U-FRAME-AUDIT", "every Heap::get_mut / reify_mut call site is one of the two name-setting sites (Assignment arm, "
    "do-block assignment) and assigns only LambdaDef.name; with U-HEAP (all other Heap methods leave existing cells "
    "unchanged) no evaluation step can change an existing value", audit_heap_mutation_sites)

U_RANDOM = KaniUnit(
    "U-RANDOM", "random(seed): two calls with the same (symbolic) seed give bit-identical results in [0, 1), with no heap effect",
    modules=[("functions.rs", "verif_builtins.rs")], harnesses=["u_random_pure"],
    functions=[("functions.rs", "call", "BuiltInFunction")],
    prepare=prep_values, timeout=1500, assumptions=BUILTIN_STUBS + ["fastrand::Rng is verified as compiled (real dependency code); cvc5 back end"])

U_PRINT_CALLS = KaniUnit(
    "U-PRINT-CALLS", "every printing site (expr_to_source, expr_to_source_with_scope, format_binary_op_multiline on all its "
    "layout paths, formatter call layouts) queries the decision functions with the operand it prints and the side it is on",
    modules=[("formatter.rs", "verif_print_calls.rs")],
    harnesses=["u_print_calls_single_line", "u_print_calls_with_scope", "u_print_calls_multiline", "u_print_calls_operands",
               "u_print_calls_call_layouts"],
    functions=[("ast_to_source.rs", "expr_to_source", None), ("ast_to_source.rs", "expr_to_source_with_scope", None),
               ("formatter.rs", "format_binary_op_multiline", None), ("formatter.rs", "format_call_multiline", None),
               ("formatter.rs", "format_single_line", None)],
    prepare=prep_common, timeout=900,
    assumptions=[STUB_ASSUMPTIONS[0], "Kani stubs (probes) for needs_parens_in_binop / _prefix / _postfix: record the operand "
                 "pointer and side, return an arbitrary bool; that the returned decision is then turned into '(' ... ')' "
                 "around that operand's text is read, not proved (format! string assembly)"])

def prep_print_calls(sc):
    """T3: slice the operator arms of expr_to_source / expr_to_source_with_scope / format_single_line verbatim."""
    prep_common(sc)
    if getattr(sc, "_printcalls", False):
        return
    from . import slicing
    src = sc.read("ast_to_source.rs")
    notes = {}

    def arms_of(fn_name, match_anchor, source, file):
        it = core.find_fn(source, fn_name, file, unit="U-PRINT-CALLS")
        m = core.find_code(source, match_anchor, it.body_open, it.end)
        if m < 0:
            raise core.Undecided("U-PRINT-CALLS", "lost-anchor", f"{file}: {match_anchor!r} in {fn_name}")
        b = m + len(match_anchor) - 1
        e = core.match_brace(source, b)
        return slicing.top_level_arms(source[b:e + 1])

    def pick(arms, prefix):
        hits = [(p, b) for p, b in arms if p.replace("\n", " ").startswith(prefix)]
        if len(hits) != 1:
            raise core.Undecided("U-PRINT-CALLS", "lost-anchor", f"arm {prefix!r} found {len(hits)} times")
        return hits[0][1]

    sigs = {
        "binop": ("Expr::BinaryOp { op, left, right }", "op: &BinaryOp, left: &Box<SpannedExpr>, right: &Box<SpannedExpr>"),
        "unary": ("Expr::UnaryOp { op, expr }", "op: &UnaryOp, expr: &Box<SpannedExpr>"),
        "postfix": ("Expr::PostfixOp { op, expr }", "op: &PostfixOp, expr: &Box<SpannedExpr>"),
        "call": ("Expr::Call { func, args }", "func: &Box<SpannedExpr>, args: &Vec<SpannedExpr>"),
        "access": ("Expr::Access { expr, index }", "expr: &Box<SpannedExpr>, index: &Box<SpannedExpr>"),
        "dot": ("Expr::DotAccess { expr, field }", "expr: &Box<SpannedExpr>, field: &String"),
    }
    text = ["#[cfg(kani)]\npub(crate) type SerializableScope = IndexMap<String, SerializableValue>;\n"]
    for fn_name, suffix, extra in (("expr_to_source", "", ""), ("expr_to_source_with_scope", "_scope", ", scope: &IndexMap<String, SerializableValue>")):
        arms = arms_of(fn_name, "match &spanned_expr.node {", src, "ast_to_source.rs")
        for key, (pat, params) in sigs.items():
            body = pick(arms, pat)
            notes[f"{fn_name}:{key}"] = core.sha256(body)
            text.append("#[cfg(kani)]\n#[allow(unused_variables, clippy::all)]\n"
                        f"pub(crate) fn verif_print_{key}{suffix}({params}{extra}) -> String {{\n    {body}\n}}\n")
    sc.append_text("ast_to_source.rs", "\n".join(text), "T3 arm slicing",
                   {"arms": notes, "dropped": "the `match &spanned_expr.node` dispatch and every other arm of the two printers"})
    fsrc = sc.read("formatter.rs")
    farms = arms_of("format_single_line", "match &expr.node {", fsrc, "formatter.rs")
    body = pick(farms, "Expr::Call { func, args }")
    sc.append_text("formatter.rs", "#[cfg(kani)]\n#[allow(unused_variables, clippy::all)]\n"
                   "pub(crate) fn verif_print_single_line_call(func: &Box<SpannedExpr>, args: &Vec<SpannedExpr>) -> String {\n    "
                   + body + "\n}\n", "T3 arm slicing",
                   {"arms": {"format_single_line:call": core.sha256(body)}, "dropped": "the match dispatch of format_single_line"})
    sc._printcalls = True


U_PRINT_CALLS = KaniUnit(
    "U-PRINT-CALLS", "the BinaryOp arms of expr_to_source and expr_to_source_with_scope, format_binary_op_multiline on all its "
    "layout paths and the formatter's two call layouts query the decision functions with the operand they print and the "
    "side that operand is on (the harnesses for the UnaryOp / PostfixOp / Access / DotAccess arms exist but did not finish "
    "in 15 minutes and are not registered)",
    modules=[("formatter.rs", "verif_print_calls.rs")],
    harnesses=["u_print_calls_binary_arms", "u_print_calls_multiline", "u_print_calls_call_layouts"],
    functions=[("ast_to_source.rs", "expr_to_source", None), ("ast_to_source.rs", "expr_to_source_with_scope", None),
               ("formatter.rs", "format_binary_op_multiline", None), ("formatter.rs", "format_call_multiline", None),
               ("formatter.rs", "format_single_line", None)],
    prepare=prep_print_calls, timeout=900,
    assumptions=[STUB_ASSUMPTIONS[0], "Kani stubs (probes) for needs_parens_in_binop / _prefix / _postfix (record operand pointer "
                 "and side, return an arbitrary decision) and for the recursive printers (return an empty string); that the "
                 "decision is then turned into '(' ... ')' around that operand's text is read, not proved (format! assembly)"],
    dropped=["T3: match dispatch around the sliced arms"])

LAMBDA_BODY_SITES = [
    # (file, function, what it prints)
    ("ast_to_source.rs", "expr_to_source", "Lambda arm: `(args) => body`"),
    ("ast_to_source.rs", "expr_to_source_with_scope", "Lambda arm with inlined scope"),
    ("formatter.rs", "format_single_line", "Lambda arm of the single-line layout"),
    ("formatter.rs", "format_lambda", "multi-line lambda layout"),
    ("values.rs", "from_value", "body text of a function output (__blots_function)"),
    ("values.rs", "parse_function_source", "body text of a reloaded function input"),
    ("values.rs", "stringify", "display form of a function value"),
]


def audit_lambda_body_sites():
    """A lambda body ends at the first via / into / where outside parentheses (grammar: lambda_infix_usage), so every site
    that prints an Expr as a lambda body has to consult a lambda-body parenthesisation decision. Token audit: the site's
    function must mention one (`needs_parens_in_lambda_body` or `lambda_body_to_source*`)."""
    import os
    import re
    obs = []
    for file, fn, what in LAMBDA_BODY_SITES:
        src = open(os.path.join(core.REPO, "blots-core", "src", file)).read()
        try:
            it = core.find_fn(src, fn, file, unit="U-LAMBDA-BODY")
        except core.Undecided as e:
            obs.append({"case": f"lambda-body-site:{file}:{fn}", "ok": False, "detail": "site function not found: " + str(e)})
            continue
        ok = bool(re.search(r"needs_parens_in_lambda_body|lambda_body_to_source", it.text))
        obs.append({"case": f"lambda-body-site:{file}:{fn}", "ok": ok, "detail": what})
    return obs


U_LAMBDA_BODY = AuditUnit(
    "U-LAMBDA-BODY", "every site that prints an expression as a lambda body consults a lambda-body parenthesisation decision "
    "(a body containing an unparenthesised via / into / where re-parses as a different program)", audit_lambda_body_sites)

def prep_bind(sc):
    prep_values(sc)
    prep_vecmap(sc)


BIND_ASSUME = [STUB_ASSUMPTIONS[0], VECMAP_ASSUMPTION, CALL_STUBS[2], CALL_STUBS[3],
               "Kani stub (probe) for expressions::evaluate_ast: reads the parameter / captured / caller names out of the scope "
               "it is handed and returns a fixed value (callee contract, not callee body)"]

U_BIND_Q = KaniUnit(
    "U-BIND", "FunctionDef::call on two-parameter lambdas (quick part): `(a?, b)` x 0..=3 arguments - no panic, a required "
    "parameter left without an argument is an error, otherwise positional binding; and a parameter shadows the function's own "
    "name (a named function whose first parameter has its name)",
    modules=[("functions.rs", "verif_bind.rs")], harnesses=["u_bind_opt_req", "u_bind_own_name"],
    functions=[("functions.rs", "call", "FunctionDef"), ("environment.rs", "get", "Environment")],
    prepare=prep_bind, timeout=1800, complete=False, bound="2 parameters, 0..=3 arguments, fixed names", assumptions=BIND_ASSUME)

U_BIND_QT = KaniUnit(
    "U-BIND", U_BIND_Q.title, modules=U_BIND_Q.modules, harnesses=U_BIND_Q.harnesses, functions=U_BIND_Q.functions,
    prepare=prep_bind, timeout=1800, tier="thorough", complete=False, bound=U_BIND_Q.bound, assumptions=BIND_ASSUME)

U_BIND_T = KaniUnit(
    "U-BIND-SHAPES", "FunctionDef::call on two-parameter lambdas (thorough part): (a, b), (a, b?), (a?, b?), (a?, ...r), (...r, b) "
    "x 0..=3 arguments: no panic; required -> argument at its position, optional -> argument or null, rest -> fresh list of "
    "the remaining arguments in order; parameters never leak into the caller. ((a, ...r) and the full scope-chain scenario "
    "ran out of memory at 30 GB and are not registered.)",
    modules=[("functions.rs", "verif_bind.rs")],
    harnesses=["u_bind_req_req", "u_bind_req_opt", "u_bind_opt_opt", "u_bind_opt_rest", "u_bind_rest_req"],
    functions=[("functions.rs", "call", "FunctionDef")],
    prepare=prep_bind, timeout=2400, tier="thorough", complete=False, bound="2 parameters, 0..=3 arguments, fixed names",
    assumptions=BIND_ASSUME)

U_PREC = KaniUnit(
    "U-PREC", "operator_info orders the 26 operators as the C10 table; ^ alone is right-associative; table rows "
    "pair each operator with its grammar rule",
    modules=[("precedence.rs", "verif_prec.rs")],
    harnesses=["u_prec_order", "u_prec_table_rules"],
    functions=[("precedence.rs", "operator_info", None)], timeout=300)

U_PARENS = KaniUnit(
    "U-PARENS", "needs_parens_in_binop wraps every operand that re-parsing would otherwise regroup: looser child, "
    "same-level child on the non-associative side, left operand whose text ends in an open-ended term",
    modules=[("ast_to_source.rs", "verif_printer.rs")],
    harnesses=["u_parens_binary", "u_parens_open_left", "u_parens_open_spine"],
    functions=[("ast_to_source.rs", "needs_parens_in_binop", None), ("ast_to_source.rs", "ends_with_open_term", None),
               ("precedence.rs", "operator_info", None)],
    timeout=600,
    assumptions=["open-ended spines are checked to depth 2 of right-nesting with symbolic operators at every level "
                 "(u_parens_open_spine); deeper spines follow by the same recursion but are not separately discharged"])

U_PARENS_OPERAND = KaniUnit(
    "U-PARENS-OPERAND", "needs_parens_in_prefix / needs_parens_in_postfix wrap every operand kind that binds looser "
    "than a prefix / postfix operator",
    modules=[("ast_to_source.rs", "verif_printer.rs")],
    harnesses=["u_parens_operand"],
    functions=[("ast_to_source.rs", "needs_parens_in_prefix", None), ("ast_to_source.rs", "needs_parens_in_postfix", None)],
    timeout=300)


def _build_heap(wd):
    from . import verus_build
    return verus_build.build("heap.tmpl", wd, "U-HEAP")


U_HEAP = VerusUnit(
    "U-HEAP", "Heap is append-only and pointers are typed: every insert_* appends exactly one cell of the pointer's "
    "kind and returns its index; no earlier cell changes; get/reify return that cell; hence a pointer handed out by an "
    "insert never dangles and never changes kind under further inserts (lemma + client)",
    _build_heap, functions=[],
    assumptions=["Verus: machine arithmetic requires heap length < usize::MAX (stated precondition)",
                 "Verus: LambdaDef, IndexMap<String, Value>, BuiltInFunction are opaque external types",
                 "Heap::new (IndexMap/iterator code) and get_mut/reify_mut (&mut returns) are outside the Verus unit; "
                 "get_mut call sites are covered by the frame audit U-FRAME-AUDIT"],
    dropped=["attributes, doc comments, pub, impl headers (re-wrapped), `-> T` renamed `-> (r: T)`, "
             "IndexMap<String, Value> -> opaque IndexMapStringValue, lifetime 'h moved from the trait impl header to fn reify; "
             "define_pointer! expanded textually for its four invocations; trait HeapPointer dispatch dropped (reify "
             "verified as an inherent method)"])

PROPERTIES = {}


def prop(pid, units, level, explanation, not_decided, assumptions=None):
    PROPERTIES[pid] = {"units": units, "level": level, "explanation": explanation, "not_decided": not_decided,
                       "assumptions": BASE_ASSUMPTIONS + (assumptions or [])}


PRINTER_ASSUMED = [
    "pest's PrattParser implements precedence climbing for the registered operator table (dependency contract)",
    "standard unparsing theorem: wrapping exactly the operands that bind looser (or equal on the non-associative side) "
    "makes parse(print(t)) = t on operator trees; the units prove the decision functions satisfy its hypotheses",
    "the arms of expr_to_source / expr_to_source_with_scope / formatter layouts apply the decision functions to the "
    "operand they print (read, not proved: the arms are format! string assembly)",
]

prop("C07", [U_PARENS, U_PARENS_OPERAND, U_PREC, U_QUOTE, U_PRINT_CALLS, U_LAMBDA_BODY], "other",
     "Contract-based proof (Kani/CBMC, full finite or fully symbolic domains) that the printer's parenthesisation "
     "decision functions wrap every operand that re-parsing would regroup. Decides the 'same expression trees' part of "
     "C07 for operator/term structure; layout, quoting and number text are assumptions or other units.",
     ["line-break placement by formatter.rs is accepted by the grammar", "number literal text round-trip (C16)",
      "comment handling (C09)", "string_to_source / format_record_key text (format!/String code, bounded unit pending)"],
     PRINTER_ASSUMED)

prop("C05", [U_PARENS, U_PARENS_OPERAND, U_PREC, U_QUOTE, U_PRINT_CALLS, U_LAMBDA_BODY, U_JSON_SCALAR], "other",
     "The emitted function source groups as the original tree: the printer's parenthesisation decision functions are proved "
     "against the precedence table of C10 and the grammar's open-ended terms (same units as C07, including the with-scope "
     "printer's call sites), bare record keys only for grammar identifiers, captured scalar values map through JSON and the "
     "heap unchanged. Behavioural equivalence after reload (capture analysis, scope inlining, parsing) is NOT decided.",
     ["collect_free_variables / validate_portable_value", "text of quoted strings and numbers (format!; C16)",
      "that the reloaded text parses to the same tree (pest)", "negative / non-finite captured numbers in postfix position"],
     PRINTER_ASSUMED)

prop("C10", [U_PREC], "other",
     "Contract on operator_info against the statement's precedence table for all 26x26 operator pairs, plus the "
     "(operator, grammar rule) pairing of PRECEDENCE_TABLE. The parser side (grammar.pest, PrattParser) is not decided.",
     ["everything that is a statement about grammar.pest: layout insensitivity, trailing commas, identifiers with "
      "reserved-word prefixes, and/&& spelling equivalence at token level",
      "that build_pratt_parser registers the table in this order (U-PRATT-REG pending)"],
     ["pest PrattParser semantics"])

prop("C01", [U_ARITY, U_HEAP, U_GUARD, U_GUARD_FACTORIAL, U_BIND_QT, U_BIND_T], "other",
     "Absence of panics is Kani's default postcondition (bounds, unwrap/expect, overflow, unreachable). Units: arity "
     "check before indexing, heap typed-pointer invariant (Verus).",
     ["pest parsing of arbitrary UTF-8 and pairs_to_expr unwraps", "ariadne rendering and span-inside-text",
      "serde_json", "formatter string slicing", "native stack depth"],
     STUB_ASSUMPTIONS)

prop("C12", [U_CMP_SCALAR, U_CMP_TAGS, U_ORDERING, U_UCMP], "other",
     "Contracts on Value::equals / Value::compare / check_ordering proved for every scalar triple and every pair of "
     "type tags. Strings, lists and records (lexicographic rule, key-order-insensitive record equality) are NOT decided.",
     ["string/list/record comparison (heap recursion: >15 min in CBMC for two 2-element lists; Verus rejects the zip loop)",
      "that each operator arm passes the right expected set (U-BINOP-* units)"],
     STUB_ASSUMPTIONS[:2])

prop("C11", [U_BINOP_SCALAR, U_BINOP_DISPATCH, U_BINOP_ROUTE, U_ORDERING, U_BCAST_LS, U_BCAST_LL], "other",
     "Scalar half of C11 (quick tier): the scalar arm block and the dot-operator arms of evaluate_binary_op_ast are sliced "
     "verbatim and proved against the statement for all operators and all scalar operands (all f64; * / % only partially). "
     "Broadcasting (thorough tier only, bounded): the list-scalar and list-list blocks against the scalar arm for lists of "
     "length <= 2, for the six operators whose harnesses discharge (- ?? and or && ||; 2.5-17 min each). For * / % ^ + and the "
     "comparisons the harnesses exist but time out, run out of memory, or hit CBMC's non-functional powf.",
     ["broadcasting arms (list-scalar, scalar-list, list-list): >15 min in CBMC even at length 2; Verus rejects the text",
      "string concatenation by + (format!/String)", "the value of ^ beyond 'a number' (f64::powf primitive)"],
     BINOP_STUBS)

prop("C04", [U_ARITY, U_ARITY_LAMBDA, U_BIND_Q, U_BIND_T], "other",
     "Arity classes and positional binding: can_accept for all usize (complete); get_arity/check_arity and the binding "
     "loop + call-time scope chain of FunctionDef::call for parameter lists of <= 3 parameters (bounded, labelled). "
     "What is captured (free-variable analysis) and call-site independence are NOT decided.",
     ["collect_free_variables / capture at definition time", "call-site independence of whole programs"],
     CALL_STUBS)

prop("C18", [U_DEPTH], "other",
     "Contract on FunctionDef::call for the call-depth guard (all built-ins, all usize depths): depth > 1000 => error "
     "before the callee; else the callee gets depth + 1. Native stack sufficiency is NOT decided.",
     ["that 1001 nested calls fit the native stack of the release build; that a few hundred calls succeed",
      "depth threading through every evaluator arm (U-DEPTH-THREAD, partly in U-BINOP-SCALAR apply:call-depth-not-decreased)"],
     CALL_STUBS)

prop("C17", [U_CONVERT], "other",
     "Contracts on the conversion formulas (all f64, bit-exact) and on convert()'s category check / composition with "
     "resolve_unit abstracted by its contract. Identifier resolution over the real 200-unit table, round-trip error "
     "bounds and prefix ratios are NOT decided.",
     ["resolve_unit (exact-then-unique-case-insensitive) on the real table: String/to_lowercase/iterator code",
      "round-trip and transitivity error bounds ((v*c)/c ~ v): symbolic fdiv chains exceed CBMC's budget; Verus has no float theory",
      "table contents (no identifier listed twice, metric prefix ratios): a finite fact that concrete execution would settle, "
      "outside this technique family"],
     STUB_ASSUMPTIONS[:2])

prop("C06", [U_JSON_SCALAR], "other",
     "Structural mapping SerializableValue <-> serde_json::Value <-> heap value proved to be the identity on scalars "
     "(all finite f64 bit-exact). Strings, lists, records and the JSON text layer are NOT decided.",
     ["strings / lists / records (recursion over Vec / IndexMap / serde_json::Map)",
      "JSON text <-> double (serde_json::to_string / from_str; serde_json is built WITHOUT float_roundtrip, so parsing is "
      "not guaranteed correctly rounded - observation by reading, outside this technique)"],
     FMT_BT)

prop("C03", [U_ASSIGN_GUARD, U_DOASSIGN2, U_DOBLOCK2, U_ENV, U_ENV_AUDIT], "other",
     "Per-site contracts for every place a name gets bound in blots-core: the top-level Assignment arm (refusals without "
     "evaluating the right-hand side, bind-after-success, failing right-hand side binds nothing), do-block assignment and the "
     "DoBlock arm (one fresh scope, nothing leaks, outer bindings unchanged), the Environment scope chain, plus a frame audit "
     "that there is no other insert site. Bounded name pools / block lengths (labelled). The induction over statement "
     "sequences is a paper step; call-time parameter scopes are part of C04.",
     ["induction over statement sequences (each step is proved, the composition is not)", "REPL/CLI drivers",
      "that not/do/return/output cannot be identifiers (grammar)", "lambda values bound by an assignment (LambdaDef.name update)"],
     SITE_STUBS)

prop("C02", [U_HEAP, U_FRAME_AUDIT, U_GLOBAL_STATE], "other",
     "Frame conditions only: the heap is append-only (Verus, all heaps, unbounded) and the only two mutation sites set a "
     "lambda's name (audit). The contract for random(seed) (U-RANDOM: same seed => same bits) was written but the two copies "
     "of fastrand's 64x64->128 multiplication are a multiplier-equivalence query that did not finish in 25 min (CaDiCaL) "
     "and crashes CBMC's SMT back end - not registered. Run-to-run determinism and let-abstraction equivalence are NOT decided.",
     ["determinism w.r.t. HashMap iteration order / process state", "let-abstraction equivalence (whole-evaluator property)",
      "purity of the built-in arms beyond the heap frame (random(seed) contract written, intractable)"],
     BUILTIN_STUBS)

prop("C13", [U_BINOP_SCALAR], "other",
     "Only the scalar forms are decided: the scalar via / into arms of evaluate_binary_op_ast apply the function exactly once "
     "to the left operand, with the function value as self-reference, at a call depth not below the current one, and the "
     "call's result or failure is the operator's (U-BINOP-SCALAR, apply group) - i.e. `x into f` is f(x). The list forms "
     "(via = map, where = filter against one callback-sequence specification, U-HOF in kani/unregistered_hof_harness.rs.txt) "
     "were written but a single harness at list length <= 2 did not finish in 40 minutes; not registered.",
     ["list forms of via / where and map / filter / reduce / every / some / sort_by / group_by (lists through the heap)",
      "recursive / closure callbacks (the callback is a probe)"],
     BCAST_ASSUME[:4])


NOT_APPLICABLE = {
    "C02": "pending: frame audit + heap frame units not yet registered",
    "C03": "pending: environment / assignment units not yet registered",
    "C04": "pending: arity/binding units not yet registered",
    "C05": "pending: printer units shared with C07 not yet registered for C05",
    "C06": "pending: JSON scalar round-trip unit not yet registered",
    "C08": "Idempotence is a property of parse o format as a whole: layout is produced by format! string assembly and "
           "re-read by the pest grammar; neither Kani nor Verus can execute or specify either side.",
    "C09": "Comment preservation runs through pest Pairs, Commented<T> vectors of Strings and string assembly; no function "
           "boundary carries it and every step is string/iterator code outside Verus' subset and beyond CBMC's budget.",
    "C11": "pending: scalar arm slice unit not yet registered",
    "C12": "pending: equality/ordering units not yet registered",
    "C13": "pending: gated HOF units",
    "C14": "Laws over list/string/record contents need symbolic sequences through iterator/sort_by/String code inside "
           "BuiltInFunction::call; CBMC could not carry two-element lists through it within 15 min; Verus rejects the text.",
    "C15": "Same obstruction as C14 plus f64 summation 'up to rounding', which neither tool can state.",
    "C16": "Exactness of double<->text is the correctness of core::fmt float printing, dec2flt, ryu and serde_json's "
           "parser - external code far beyond CBMC, with no float/string theory in Verus.",
    "C17": "pending: unit conversion units not yet registered",
    "C18": "pending: call-depth units not yet registered",
    "C19": "Process-level behaviour of main (exit status, stdout JSON, stdin/flags merging via clap/serde_json); no "
           "function-level contract expresses it and Kani cannot model process I/O.",
    "C20": "format_display_number is format!(\"{:.14e}\"), log10, powi, round and string trimming: float-to-text code "
           "CBMC cannot execute symbolically and Verus cannot specify.",
}
