"""Core machinery: scratch copies of /repo, mechanical injection (T1/T3), Kani and Verus
runners, result classification, known findings, evidence and replay files.

Exit-code protocol (DESIGN.md 2.7): 0 all registered obligations discharged (known findings
aside), 1 a claimed obligation failed (VIOLATION line), 2 undecided (never an alarm).
"""
import hashlib
import json
import os
import re
import shutil
import signal
import subprocess
import sys
import tempfile
import time

VERIF = os.path.dirname(os.path.dirname(os.path.abspath(__file__)))
REPO = os.environ.get("VERIF_REPO", "/repo")
CACHE = os.path.join(VERIF, ".cache")
KANI_TARGET = os.path.join(CACHE, "kani-target")
EVIDENCE_DIR = os.environ.get("VERIF_EVIDENCE_DIR", os.path.join(VERIF, "evidence"))
REPLAY_DIR = os.environ.get("VERIF_REPLAY_DIR", os.path.join(VERIF, "replays"))
KNOWN_FINDINGS = os.path.join(VERIF, "known_findings.json")

OFFLINE_ENV = {"CARGO_NET_OFFLINE": "true"}


class Undecided(Exception):
    """Raised when the machinery cannot decide (lost anchor, tool crash, timeout)."""

    def __init__(self, unit, reason, detail=""):
        super().__init__(f"UNDECIDED unit={unit} reason={reason} {detail}")
        self.unit, self.reason, self.detail = unit, reason, detail


def sha256(b):
    if isinstance(b, str):
        b = b.encode()
    return hashlib.sha256(b).hexdigest()


def log(*a):
    print(*a, file=sys.stderr, flush=True)


# --------------------------------------------------------------------------------------
# Rust source scanning (token level: strings, chars, comments, braces)
# --------------------------------------------------------------------------------------

def _skip_noncode(s, i):
    """If s[i:] starts a comment / string / char literal, return index after it, else i."""
    n = len(s)
    if s.startswith("//", i):
        j = s.find("\n", i)
        return n if j < 0 else j
    if s.startswith("/*", i):
        depth, j = 1, i + 2
        while j < n and depth:
            if s.startswith("/*", j):
                depth += 1; j += 2
            elif s.startswith("*/", j):
                depth -= 1; j += 2
            else:
                j += 1
        return j
    c = s[i]
    if c == '"':
        j = i + 1
        while j < n:
            if s[j] == "\\":
                j += 2; continue
            if s[j] == '"':
                return j + 1
            j += 1
        return n
    if c == "r" and re.match(r'r#*"', s[i:i + 10]) and (i == 0 or not (s[i - 1].isalnum() or s[i - 1] == "_")):
        m = re.match(r'r(#*)"', s[i:])
        close = '"' + m.group(1)
        j = s.find(close, i + len(m.group(0)))
        return n if j < 0 else j + len(close)
    if c == "'":
        # char literal or lifetime
        m = re.match(r"'(\\.[^']*|[^\\'])'", s[i:i + 12])
        if m:
            return i + len(m.group(0))
        return i + 1  # lifetime tick: treat as code
    return i


def match_brace(s, open_idx):
    """s[open_idx] is one of ([{ ; return index of the matching closer."""
    pairs = {"{": "}", "(": ")", "[": "]"}
    stack = []
    i, n = open_idx, len(s)
    while i < n:
        j = _skip_noncode(s, i)
        if j != i:
            i = j
            continue
        c = s[i]
        if c in pairs:
            stack.append(pairs[c])
        elif c in ")]}":
            if not stack or stack[-1] != c:
                raise ValueError(f"unbalanced at {i}")
            stack.pop()
            if not stack:
                return i
        i += 1
    raise ValueError("no matching brace")


def find_code(s, needle, start=0, end=None):
    """Find needle in code (not inside comments/strings). Returns index or -1."""
    end = len(s) if end is None else end
    i = start
    while i < end:
        j = _skip_noncode(s, i)
        if j != i:
            i = j
            continue
        if s.startswith(needle, i):
            return i
        i += 1
    return -1


def find_all_code(s, needle, start=0, end=None):
    out = []
    i = start
    while True:
        i = find_code(s, needle, i, end)
        if i < 0:
            return out
        out.append(i)
        i += len(needle)


def line_of(s, idx):
    return s.count("\n", 0, idx) + 1


class Item:
    def __init__(self, file, start, end, body_open, text, src):
        self.file, self.start, self.end, self.body_open = file, start, end, body_open
        self.text = text
        self.line_start, self.line_end = line_of(src, start), line_of(src, end)

    @property
    def signature(self):
        return self.text[: self.body_open - self.start]

    @property
    def body(self):
        return self.text[self.body_open - self.start:]

    def describe(self):
        return {"file": self.file, "lines": [self.line_start, self.line_end], "sha256": sha256(self.text)}


def find_block(src, header_re, file="?", start=0, end=None, unit="?"):
    """Locate `header_re ... {` in code and return the Item spanning header..matching brace."""
    end = len(src) if end is None else end
    for m in re.finditer(header_re, src[start:end], flags=re.M):
        a = start + m.start()
        # make sure the match is in code
        if find_code(src, src[a:a + 1], a, a + 1) != a:
            continue
        # brace: first '{' in code after header (skipping where clauses etc.)
        b = find_code(src, "{", start + m.end() - 1 if src[start + m.end() - 1] == "{" else start + m.end(), end)
        if b < 0:
            continue
        # guard: header must not run across a ';' (declaration without body)
        semi = find_code(src, ";", start + m.end(), b)
        if semi >= 0:
            continue
        e = match_brace(src, b)
        return Item(file, a, e + 1, b, src[a:e + 1], src)
    raise Undecided(unit, "lost-anchor", f"{file}: /{header_re}/")


def find_fn(src, name, file="?", within=None, unit="?"):
    """Find `fn name` (optionally inside an `impl X` block named by `within`)."""
    start, end = 0, len(src)
    if within:
        blk = find_block(src, r"^\s*impl(?:<[^>]*>)?\s+" + within + r"\s*\{", file, unit=unit)
        start, end = blk.body_open, blk.end
    hdr = r"^[ \t]*(?:pub(?:\([a-z]+\))?\s+)?(?:const\s+)?fn\s+" + re.escape(name) + r"\b"
    return find_block(src, hdr, file, start, end, unit=unit)


# --------------------------------------------------------------------------------------
# Scratch workspace
# --------------------------------------------------------------------------------------

class Scratch:
    """A throw-away copy of /repo's blots-core in a one-member workspace, outside /repo and /verif."""

    def __init__(self, tag="k"):
        self.tag = tag
        self.dir = None
        self.injected = []  # record of mechanical transformations
        self.sources = {}

    def __enter__(self):
        self.dir = tempfile.mkdtemp(prefix=f"blots-verif.{self.tag}.")
        ws = self.dir
        subprocess.run(["rsync", "-a", "--exclude", "target", os.path.join(REPO, "blots-core"), ws + "/"], check=True)
        shutil.copy(os.path.join(REPO, "Cargo.lock"), ws)
        cargo = open(os.path.join(REPO, "Cargo.toml")).read()
        cargo2, n = re.subn(r"members\s*=\s*\[.*?\]", 'members = ["blots-core"]', cargo, count=1, flags=re.S)
        if n != 1:
            raise Undecided("scratch", "lost-anchor", "workspace members in Cargo.toml")
        open(os.path.join(ws, "Cargo.toml"), "w").write(cargo2)
        os.makedirs(os.path.join(ws, ".cargo"))
        open(os.path.join(ws, ".cargo", "config.toml"), "w").write("[net]\noffline = true\n")
        return self

    def __exit__(self, *exc):
        if self.dir and os.path.isdir(self.dir) and not os.environ.get("VERIF_KEEP_SCRATCH"):
            shutil.rmtree(self.dir, ignore_errors=True)
        # disk hygiene: every scratch copy leaves ~0.1-1 GB of goto binaries under the shared Kani target directory (the
        # directory name is a hash of the scratch path); drop those older than 3 hours (no check runs that long)
        try:
            import glob
            now = time.time()
            for d in glob.glob(os.path.join(KANI_TARGET, "kani", "*", "debug", "build", "blots-core", "*")):
                if now - os.path.getmtime(d) > 3 * 3600:
                    shutil.rmtree(d, ignore_errors=True)
        except Exception:
            pass
        return False

    def src_path(self, rel):
        return os.path.join(self.dir, "blots-core", "src", rel)

    def read(self, rel):
        return open(self.src_path(rel)).read()

    def write(self, rel, text):
        open(self.src_path(rel), "w").write(text)

    def repo_read(self, rel):
        return open(os.path.join(REPO, "blots-core", "src", rel)).read()

    # T1 ---------------------------------------------------------------------------
    def append_module(self, parent_rel, module_path, modname=None):
        """Append `#[cfg(kani)] #[path=..] mod <modname>;` to parent file, copy module next to it."""
        modname = modname or os.path.splitext(os.path.basename(module_path))[0]
        dst = self.src_path(modname + ".rs")
        shutil.copy(module_path, dst)
        with open(self.src_path(parent_rel), "a") as f:
            f.write(f"\n#[cfg(kani)]\n#[path = \"{modname}.rs\"]\nmod {modname};\n")
        self.injected.append({"rule": "T1 append-module", "file": parent_rel, "module": os.path.relpath(module_path, VERIF),
                              "module_sha256": sha256(open(module_path).read())})
        return modname

    def prepend_crate_attr(self, attr):
        """Insert a crate-level attribute at the top of lib.rs (after nothing: inner attributes must come first)."""
        if attr in getattr(self, "_crate_attrs", set()):
            return
        self._crate_attrs = getattr(self, "_crate_attrs", set()) | {attr}
        src = self.read("lib.rs")
        self.write("lib.rs", attr + "\n" + src)
        self.injected.append({"rule": "T2 crate attribute", "file": "lib.rs", "attribute": attr})

    def append_text(self, parent_rel, text, rule, note):
        with open(self.src_path(parent_rel), "a") as f:
            f.write("\n" + text + "\n")
        self.injected.append({"rule": rule, "file": parent_rel, "note": note, "text_sha256": sha256(text)})

    # T2 ---------------------------------------------------------------------------
    def attach_attr(self, rel, header_re, attr, unit="?"):
        """Insert an attribute line immediately above the (unique) item whose header matches header_re.
        Attributes already above the item (derive etc.) stay; nothing is removed."""
        src = self.read(rel)
        ms = [m for m in re.finditer(header_re, src, flags=re.M) if find_code(src, src[m.start():m.start() + 1], m.start(), m.start() + 1) == m.start()]
        if len(ms) != 1:
            raise Undecided(unit, "lost-anchor", f"{rel}: /{header_re}/ matched {len(ms)} times")
        key = (rel, header_re, attr)
        if key in getattr(self, "_attached", set()):
            return
        self._attached = getattr(self, "_attached", set()) | {key}
        a = ms[0].start()
        ls = src.rfind("\n", 0, a) + 1
        indent = src[ls:a] if src[ls:a].strip() == "" else ""
        self.write(rel, src[:ls] + indent + attr + "\n" + src[ls:])
        self.injected.append({"rule": "T2 attach-attribute", "file": rel, "anchor": header_re, "attribute": attr})

    def insert_in_impl(self, parent_rel, impl_name, text, note, unit="?"):
        """Insert text just before the closing brace of `impl <impl_name> {`."""
        src = self.read(parent_rel)
        blk = find_block(src, r"^\s*impl\s+" + impl_name + r"\s*\{", parent_rel, unit=unit)
        new = src[: blk.end - 1] + "\n" + text + "\n" + src[blk.end - 1:]
        self.write(parent_rel, new)
        self.injected.append({"rule": "T1b insert-in-impl", "file": parent_rel, "impl": impl_name, "note": note,
                              "text_sha256": sha256(text)})


# --------------------------------------------------------------------------------------
# Kani runner
# --------------------------------------------------------------------------------------

def _kill_tree(p):
    try:
        os.killpg(os.getpgid(p.pid), signal.SIGKILL)
    except Exception:
        pass


def run_cmd(cmd, cwd=None, timeout=None, env=None, logfile=None):
    e = dict(os.environ)
    e.update(OFFLINE_ENV)
    if env:
        e.update(env)
    t0 = time.time()
    p = subprocess.Popen(cmd, cwd=cwd, env=e, stdout=subprocess.PIPE, stderr=subprocess.STDOUT,
                         start_new_session=True, text=True, errors="replace")
    try:
        out, _ = p.communicate(timeout=timeout)
        rc = p.returncode
        timed_out = False
    except subprocess.TimeoutExpired:
        _kill_tree(p)
        out, _ = p.communicate()
        rc, timed_out = -9, True
    if logfile:
        open(logfile, "w").write(out)
    return rc, out, time.time() - t0, timed_out


KANI_BASE_FLAGS = ["-Z", "stubbing", "-Z", "function-contracts", "-Z", "unstable-options", "--no-overflow-checks"]


def run_kani(scratch, harnesses, harness_timeout=600, jobs=8, extra=None, wall_timeout=None, tag="run"):
    """Run the named harnesses (exact names) in one `cargo kani` invocation; return per-harness results.

    Result per harness: {status: success|failure|timeout|error, checks: [...], stats: {...}, duration_s}
    """
    os.makedirs(KANI_TARGET, exist_ok=True)
    out_json = os.path.join(scratch.dir, f"kani-{tag}.json")
    if os.path.exists(out_json):
        os.remove(out_json)
    cmd = ["cargo", "kani", "-p", "blots-core"] + KANI_BASE_FLAGS
    for h in harnesses:
        cmd += ["--harness", h]
    cmd += ["--exact"] if False else []
    cmd += ["-j", str(max(1, min(jobs, len(harnesses)))), "--output-format", "terse",
            "--harness-timeout", f"{int(harness_timeout)}s", "--export-json", out_json]
    if extra:
        cmd += extra
    wall_timeout = wall_timeout or (harness_timeout * (1 + (len(harnesses) - 1) // max(1, jobs)) + 600)
    logfile = os.path.join(scratch.dir, f"kani-{tag}.log")
    rc, out, wall, timed_out = run_cmd(cmd, cwd=scratch.dir, timeout=wall_timeout,
                                       env={"CARGO_TARGET_DIR": KANI_TARGET}, logfile=logfile)
    res = {"cmd": " ".join(cmd), "rc": rc, "wall_s": wall, "timed_out": timed_out, "log_tail": out[-4000:],
           "harnesses": {}, "compile_error": False}
    if "error: could not compile" in out or "error[E" in out:
        res["compile_error"] = True
        return res
    data = None
    if os.path.exists(out_json):
        try:
            data = json.load(open(out_json))
        except Exception:
            data = None
    if data:
        stats = {c["harness_id"]: (c.get("cbmc_stats") or {}) for c in data.get("cbmc", [])}
        for r in data.get("verification_results", {}).get("results", []):
            hid = r["harness_id"]
            short = hid.split("::")[-1]
            st = r["status"].lower()
            res["harnesses"][short] = {
                "id": hid, "status": "success" if st == "success" else "failure",
                "duration_s": r.get("duration_ms", 0) / 1000.0,
                "checks": r.get("checks", []), "stats": stats.get(hid, {}),
            }
    # harnesses missing from the export: timeout or crash
    for h in harnesses:
        if h not in res["harnesses"]:
            why = "timeout" if (timed_out or re.search(r"(?i)timed? ?out", out)) else "error"
            res["harnesses"][h] = {"id": h, "status": why, "duration_s": None, "checks": [], "stats": {}}
    # a harness reported failure but with zero failed checks => CBMC crashed / OOM / timeout
    for h, r in res["harnesses"].items():
        if r["status"] == "failure" and not any(c["status"] in ("Failure",) for c in r["checks"]):
            bad = [c for c in r["checks"] if c["status"] in ("Undetermined", "SolverError")]
            r["status"] = "timeout" if not r["checks"] else ("error" if not bad else "undetermined")
    return res


def kani_playback_print(scratch, harness, timeout=900):
    """Re-run one harness with --concrete-playback=print; return the generated unit test text(s)."""
    cmd = ["cargo", "kani", "-p", "blots-core"] + KANI_BASE_FLAGS + ["-Z", "concrete-playback",
           "--concrete-playback=print", "--harness", harness]
    rc, out, wall, to = run_cmd(cmd, cwd=scratch.dir, timeout=timeout, env={"CARGO_TARGET_DIR": KANI_TARGET})
    tests = re.findall(r"```\n(.*?)```", out, flags=re.S)
    return [t for t in tests if "kani_concrete_playback" in t], out[-3000:]


# --------------------------------------------------------------------------------------
# Verus runner
# --------------------------------------------------------------------------------------

def run_verus(path, timeout=600, extra=None):
    cmd = ["verus", path, "--output-json", "--time"] + (extra or [])
    rc, out, wall, to = run_cmd(cmd, cwd=os.path.dirname(path), timeout=timeout)
    res = {"cmd": " ".join(cmd), "rc": rc, "wall_s": wall, "timed_out": to, "raw_tail": out[-6000:], "json": None}
    # output-json prints a JSON object on stdout, diagnostics (rustc style) on stderr - both merged here
    i = out.find("{\n")
    while i >= 0:
        try:
            res["json"] = json.JSONDecoder().raw_decode(out[i:])[0]
            res["diagnostics"] = out[:i]
            break
        except Exception:
            i = out.find("{\n", i + 1)
    return res


# --------------------------------------------------------------------------------------
# Known findings
# --------------------------------------------------------------------------------------

def load_known():
    if not os.path.exists(KNOWN_FINDINGS):
        return {"open": [], "fixed": []}
    return json.load(open(KNOWN_FINDINGS))


def known_match(known, prop, unit, case):
    for k in known.get("open", []):
        if prop in k.get("properties", [k.get("property")]) and k["unit"] == unit and k["case"] == case:
            return k
    return None
