"""Canaries: seeded contract-breaking edits applied to a throw-away COPY of /repo (never /repo itself).
Each must make the named obligation fail; a canary that still verifies marks the unit as vacuous (exit 2).
(file, old, new) are exact text replacements; a lost anchor skips the canary with a note (never an alarm)."""

CANARIES = [
    # id, property, unit, file, old, new, expected obligation substring
    ("prec-coalesce-level", "C10", "U-PREC", "precedence.rs", "precedence 6, Left => {", "precedence 5, Left => {", "U-PREC"),
    ("prec-power-left", "C10", "U-PREC", "precedence.rs", "precedence 5, Right => {", "precedence 5, Left => {", "assoc"),
    ("parens-same-level-right", "C07", "U-PARENS", "ast_to_source.rs", "Assoc::Left => !is_left,", "Assoc::Left => false,", "binary-child"),
    ("parens-open-left", "C07", "U-PARENS", "ast_to_source.rs", "if is_left && ends_with_open_term(child_expr) {", "if false && ends_with_open_term(child_expr) {", "U-PARENS"),
    ("parens-prefix-binary", "C07", "U-PARENS-OPERAND", "ast_to_source.rs",
     "    matches!(&child_expr.node, Expr::BinaryOp { .. })\n", "    matches!(&child_expr.node, Expr::BinaryOp { op: BinaryOp::Add, .. })\n", "prefix"),
    ("parens-postfix-unary", "C07", "U-PARENS-OPERAND", "ast_to_source.rs", "        | Expr::UnaryOp { .. }\n        | Expr::Spread(_)", "        | Expr::Spread(_)", "postfix"),
    ("arity-can-accept", "C01", "U-ARITY", "values.rs", "FunctionArity::Between(min, max) => n >= *min && n <= *max,", "FunctionArity::Between(min, max) => n >= *min && n < *max,", "can_accept"),
    ("arity-check-builtin", "C01", "U-ARITY", "functions.rs", "                    if arg_count >= min && arg_count <= max {\n                        Ok(())\n                    } else {\n                        Err(RuntimeError::new(format!(\n                            \"{} takes between {} and {} arguments, but {} were given\",\n                            self.get_name(),\n                            min,\n                            max,\n                            arg_count\n                        )))\n                    }\n                }\n            },",
     "                    if arg_count >= min && arg_count <= max + 1 {\n                        Ok(())\n                    } else {\n                        Err(RuntimeError::new(format!(\n                            \"{} takes between {} and {} arguments, but {} were given\",\n                            self.get_name(),\n                            min,\n                            max,\n                            arg_count\n                        )))\n                    }\n                }\n            },", "check_arity"),
    ("heap-insert-index", "C01", "U-HEAP", "heap.rs", "        self.values.len() - 1\n", "        self.values.len()\n", "insert"),
    ("depth-limit", "C18", "U-DEPTH", "functions.rs", "if call_depth > 1000 {", "if call_depth > 10000 {", "depth-over-1000"),
    ("depth-plus-one", "C18", "U-DEPTH", "functions.rs", "                    .call(args, heap, bindings, call_depth + 1, source)", "                    .call(args, heap, bindings, call_depth, source)", "depth-plus-one"),
    ("cmp-bool-order", "C12", "U-CMP-SCALAR", "values.rs", "(Value::Bool(a), Value::Bool(b)) => Ok(a.partial_cmp(b)),", "(Value::Bool(a), Value::Bool(b)) => Ok(b.partial_cmp(a)),", "false-before-true"),
    ("cmp-null-equal", "C12", "U-CMP-SCALAR", "values.rs", "            (Value::Null, Value::Null) => Ok(true),", "            (Value::Null, Value::Null) => Ok(false),", "reflexive"),
    ("ordering-none-false", "C12", "U-ORDERING", "expressions.rs", "        Some(ord) => Ok(expected.contains(&ord)),", "        Some(ord) => Ok(!expected.contains(&ord)),", "membership"),
    ("binop-subtract-swapped", "C11", "U-BINOP-SCALAR", "expressions.rs", "BinaryOp::Subtract => Ok(Number(lhs.as_number()? - rhs.as_number()?)),", "BinaryOp::Subtract => Ok(Number(rhs.as_number()? - lhs.as_number()?)),", "subtract"),
    ("binop-coalesce", "C11", "U-BINOP-SCALAR", "expressions.rs", "                if lhs == Value::Null {\n                    Ok(rhs)", "                if lhs == Value::Null || lhs == Value::Bool(false) {\n                    Ok(rhs)", "coalesce"),
    ("binop-dot-lesseq", "C11", "U-BINOP-DISPATCH", "expressions.rs", "        BinaryOp::DotLessEq => {\n            return Ok(Bool(check_ordering(\n                lhs.compare(&rhs, &heap.borrow())?,\n                &[Ordering::Less, Ordering::Equal],",
     "        BinaryOp::DotLessEq => {\n            return Ok(Bool(check_ordering(\n                lhs.compare(&rhs, &heap.borrow())?,\n                &[Ordering::Less],", "dot-ordering"),
    ("convert-category", "C17", "U-CONVERT", "units.rs", "    if from.category != to.category {", "    if from.category != to.category && from.category != UnitCategory::Length {", "different-categories"),
    ("convert-reciprocal", "C17", "U-CONVERT", "units.rs", "            ConversionType::Linear { coefficient } => value / coefficient,", "            ConversionType::Linear { coefficient } => value * (1.0 / coefficient),", "from-base"),
    ("json-negzero", "C06", "U-JSON-SCALAR", "values.rs", "            serde_json::Value::Number(n) => SerializableValue::Number(n.as_f64().unwrap_or(0.0)),", "            serde_json::Value::Number(n) => SerializableValue::Number(n.as_f64().unwrap_or(0.0) + 0.0),", "U-JSON-SCALAR"),
    ("env-get-parent-first", "C03", "U-ENV", "environment.rs", "        if let Some(value) = local_value {\n            return Some(value);\n        }\n        // Then check parent scope\n        if let Some(parent) = &self.parent {\n            return parent.get(key);\n        }\n        None",
     "        if let Some(parent) = &self.parent {\n            if let Some(v) = parent.get(key) {\n                return Some(v);\n            }\n        }\n        local_value", "U-ENV"),
    ("ident-non-ascii", "C07", "U-QUOTE", "ast_to_source.rs", "chars.all(|c| c.is_ascii_alphanumeric() || c == '_')", "chars.all(|c| c.is_alphanumeric() || c == '_')", "U-QUOTE"),
    ("print-multiline-side", "C07", "U-PRINT-CALLS", "formatter.rs", "    let right_needs_parens = needs_parens_in_binop(op, right, false);", "    let right_needs_parens = needs_parens_in_binop(op, right, true);", "U-PRINT-CALLS"),
    ("ucmp-bool", "C12", "U-UCMP", "functions.rs", "            Self::Ugt => match args[0].compare(&args[1], &heap.borrow())? {\n                Some(std::cmp::Ordering::Greater) => Ok(Value::Bool(true)),", "            Self::Ugt => match args[0].compare(&args[1], &heap.borrow())? {\n                Some(std::cmp::Ordering::Greater) if args[0].is_number() => Ok(Value::Bool(true)),", "U-UCMP"),
    ("range-overflow", "C01", "U-GUARD", "functions.rs", "let length = end_i64.saturating_sub(start_i64);", "let length = end_i64 - start_i64;", "panic"),
    ("factorial-guard", "C01", "U-GUARD-FACTORIAL", "expressions.rs", "                        if n > 170.0 {", "                        if n > 1e300 {", "U-GUARD"),
    ("heap-get-mut-site", "C02", "U-FRAME-AUDIT", "functions.rs", "            Self::Abs => Ok(Value::Number(args[0].as_number()?.abs())),", "            Self::Abs => { let _ = heap.borrow_mut().get_mut(0); Ok(Value::Number(args[0].as_number()?.abs())) }", "heap-mutation-site"),
    ("arity-lambda-rest", "C04", "U-ARITY-LAMBDA", "values.rs", "            FunctionArity::AtLeast(min)\n        } else if min == max {", "            FunctionArity::AtLeast(min + 1)\n        } else if min == max {", "rest"),
]
