"""Specification tables typed in from the property statements (NOT read from /repo).

C10: "from loosest to tightest: and/or/&&/||/via/into/where; comparisons (plain and dot-prefixed);
+ -; * / %; ^ (right-associative); ??; prefix - ! not; postfix !; call, index and field access -
every binary level being left-associative except ^".
"""

BINOPS = [
    "Add", "Subtract", "Multiply", "Divide", "Modulo", "Power",
    "Equal", "NotEqual", "Less", "LessEq", "Greater", "GreaterEq",
    "DotEqual", "DotNotEqual", "DotLess", "DotLessEq", "DotGreater", "DotGreaterEq",
    "And", "NaturalAnd", "Or", "NaturalOr", "Via", "Into", "Where", "Coalesce",
]

LEVEL = {}
for o in ["And", "NaturalAnd", "Or", "NaturalOr", "Via", "Into", "Where"]:
    LEVEL[o] = 1
for o in ["Equal", "NotEqual", "Less", "LessEq", "Greater", "GreaterEq",
          "DotEqual", "DotNotEqual", "DotLess", "DotLessEq", "DotGreater", "DotGreaterEq"]:
    LEVEL[o] = 2
for o in ["Add", "Subtract"]:
    LEVEL[o] = 3
for o in ["Multiply", "Divide", "Modulo"]:
    LEVEL[o] = 4
LEVEL["Power"] = 5
LEVEL["Coalesce"] = 6
assert set(LEVEL) == set(BINOPS) and len(BINOPS) == 26

RIGHT_ASSOC = {"Power"}

# surface spelling (statement: "the word and symbol spellings of and/or/not")
SYMBOL = {
    "Add": "+", "Subtract": "-", "Multiply": "*", "Divide": "/", "Modulo": "%", "Power": "^",
    "Equal": "==", "NotEqual": "!=", "Less": "<", "LessEq": "<=", "Greater": ">", "GreaterEq": ">=",
    "DotEqual": ".==", "DotNotEqual": ".!=", "DotLess": ".<", "DotLessEq": ".<=", "DotGreater": ".>",
    "DotGreaterEq": ".>=", "And": "&&", "NaturalAnd": "and", "Or": "||", "NaturalOr": "or",
    "Via": "via", "Into": "into", "Where": "where", "Coalesce": "??",
}

# the grammar rule each operator is written with (C10 anchors: PRECEDENCE_TABLE pairs)
RULE = {
    "Add": "add", "Subtract": "subtract", "Multiply": "multiply", "Divide": "divide", "Modulo": "modulo",
    "Power": "power", "Equal": "equal", "NotEqual": "not_equal", "Less": "less", "LessEq": "less_eq",
    "Greater": "greater", "GreaterEq": "greater_eq", "DotEqual": "dot_equal", "DotNotEqual": "dot_not_equal",
    "DotLess": "dot_less", "DotLessEq": "dot_less_eq", "DotGreater": "dot_greater",
    "DotGreaterEq": "dot_greater_eq", "And": "and", "NaturalAnd": "natural_and", "Or": "or",
    "NaturalOr": "natural_or", "Via": "via", "Into": "into", "Where": "where_", "Coalesce": "coalesce",
}


def must_paren_binary(parent, child, side):
    """Parentheses are REQUIRED around a binary child for print->parse to give back the same tree."""
    lp, lc = LEVEL[parent], LEVEL[child]
    if lc < lp:
        return True
    if lc > lp:
        return False
    if parent in RIGHT_ASSOC:      # level 5 holds only ^
        return side == "left"
    return side == "right"
