"""Rule T3: arm / tail slicing of the giant functions. The sliced text is copied VERBATIM (located by a
unique anchor line + brace matching) into a generated #[cfg(kani)] function appended to the same file."""
import re

from . import core
from .core import Undecided


def unique_anchor(src, anchor, unit, file, start=0, end=None):
    hits = core.find_all_code(src, anchor, start, end)
    if len(hits) != 1:
        raise Undecided(unit, "lost-anchor", f"{file}: anchor {anchor!r} found {len(hits)} times")
    return hits[0]


def fn_span(src, name, file, unit):
    it = core.find_fn(src, name, file, unit=unit)
    return it.body_open, it.end


def slice_block_after(src, anchor, unit, file, within_fn=None):
    """Return (text, start, end) of the `{...}` block that follows the unique anchor."""
    s0, e0 = (0, len(src))
    if within_fn:
        s0, e0 = fn_span(src, within_fn, file, unit)
    a = unique_anchor(src, anchor, unit, file, s0, e0)
    b = core.find_code(src, "{", a + len(anchor) - 1 if anchor.endswith("{") else a + len(anchor), e0)
    if b < 0:
        raise Undecided(unit, "lost-anchor", f"{file}: no block after {anchor!r}")
    e = core.match_brace(src, b)
    return src[b:e + 1], b, e + 1


def slice_block_after_comment(src, comment_text, code_anchor, unit, file, within_fn=None):
    """The anchor is a (unique) comment line; the block is the one opened by the first `code_anchor` after it."""
    s0, e0 = (0, len(src))
    if within_fn:
        s0, e0 = fn_span(src, within_fn, file, unit)
    c = src.find(comment_text, s0, e0)
    if c < 0 or src.find(comment_text, c + 1, e0) >= 0:
        raise Undecided(unit, "lost-anchor", f"{file}: comment anchor {comment_text!r}")
    a = core.find_code(src, code_anchor, c + len(comment_text), e0)
    if a < 0 or src[c + len(comment_text):a].strip() != "":
        raise Undecided(unit, "lost-anchor", f"{file}: {code_anchor!r} does not directly follow {comment_text!r}")
    b = a + len(code_anchor) - 1
    if src[b] != "{":
        raise Undecided(unit, "lost-anchor", f"{file}: anchor must end with an opening brace")
    e = core.match_brace(src, b)
    return src[b:e + 1], b, e + 1


def top_level_arm_patterns(block):
    """Patterns (text before `=>`) of the top-level arms of a match block `{ ... }`."""
    body = block[1:-1]
    pats = []
    i, n = 0, len(body)
    start = 0
    depth = 0
    while i < n:
        j = core._skip_noncode(body, i)
        if j != i:
            i = j
            continue
        c = body[i]
        if c in "([{":
            k = core.match_brace(body, i)
            # an arm body in braces at depth 0 following '=>'
            i = k + 1
            continue
        if body.startswith("=>", i):
            pats.append(body[start:i].strip())
            # skip arm body: either a block or an expression up to the next top-level ','
            i += 2
            while i < n and body[i].isspace():
                i += 1
            while i < n:
                j = core._skip_noncode(body, i)
                if j != i:
                    i = j
                    continue
                if body[i] in "([{":
                    i = core.match_brace(body, i) + 1
                    # a block body may be followed by optional ','
                    k = i
                    while k < n and body[k].isspace():
                        k += 1
                    if k < n and body[k] == ",":
                        i = k + 1
                        break
                    if body[i - 1] == "}":
                        # block arm without trailing comma ends the arm unless a method chain follows
                        if k < n and body[k] in ".?":
                            continue
                        break
                    continue
                if body[i] == ",":
                    i += 1
                    break
                i += 1
            start = i
            continue
        i += 1
    return pats


def top_level_arms(block):
    """(pattern, body) pairs of the top-level arms of a match block `{ ... }`; body is verbatim text (a `{...}` block
    or an expression without the trailing comma)."""
    body = block[1:-1]
    arms = []
    i, n = 0, len(body)
    start = 0
    while i < n:
        j = core._skip_noncode(body, i)
        if j != i:
            i = j
            continue
        c = body[i]
        if c in "([{":
            i = core.match_brace(body, i) + 1
            continue
        if body.startswith("=>", i):
            pat = body[start:i].strip()
            i += 2
            while i < n and body[i].isspace():
                i += 1
            bstart = i
            while i < n:
                j = core._skip_noncode(body, i)
                if j != i:
                    i = j
                    continue
                if body[i] in "([{":
                    k = core.match_brace(body, i)
                    is_block = body[i] == "{" and i == bstart
                    i = k + 1
                    if is_block:
                        kk = i
                        while kk < n and body[kk].isspace():
                            kk += 1
                        if kk < n and body[kk] in ".?":
                            continue
                        break
                    continue
                if body[i] == ",":
                    break
                i += 1
            arms.append((pat, body[bstart:i].strip()))
            while i < n and (body[i].isspace() or body[i] == ","):
                i += 1
            start = i
            continue
        i += 1
    return arms
