"""Per-property driver: gathers the property's units, runs the engines, classifies results,
prints KNOWN-FINDING / VIOLATION / UNDECIDED lines, writes evidence and replay files."""
import json
import os
import re
import time

from . import core, gen
from .core import Undecided, log

SPEC_RE = re.compile(r'^"?(U-[A-Z0-9-]+)#(.*?)"?$', re.S)


class KaniUnit:
    engine = "kani"

    def __init__(self, uid, title, modules, harnesses, functions, complete=True, bound=None, tier="quick",
                 timeout=600, extra=None, prepare=None, assumptions=None, dropped=None, replay=None,
                 expect_cover=True):
        self.uid, self.title = uid, title
        self.modules = modules          # list of (parent_rel, module_file_rel_to_/verif/kani)
        self.harnesses = harnesses      # list of harness fn names
        self.functions = functions      # list of (file_rel, fn name, within impl or None) under contract
        self.complete, self.bound = complete, bound
        self.tier, self.timeout, self.extra = tier, timeout, tuple(extra or ())
        self.prepare = prepare          # optional callable(scratch) doing T3 slicing etc.
        self.assumptions = assumptions or []
        self.dropped = dropped or []
        self.replay = replay            # optional callable(case, ctx) -> dict
        self.expect_cover = expect_cover


class VerusUnit:
    engine = "verus"

    def __init__(self, uid, title, build, functions, tier="quick", timeout=300, assumptions=None, dropped=None):
        self.uid, self.title, self.build = uid, title, build  # build(workdir) -> (path, meta)
        self.functions, self.tier, self.timeout = functions, tier, timeout
        self.assumptions = assumptions or []
        self.dropped = dropped or []
        self.complete, self.bound = True, None


class AuditUnit:
    """Frame-condition audit (token scan of /repo); the one non-solver obligation kind (DESIGN 3, C02/C03)."""
    engine = "audit"

    def __init__(self, uid, title, run, functions=None, tier="quick", assumptions=None):
        self.uid, self.title, self.run = uid, title, run   # run() -> list of obligations {case, ok, detail}
        self.functions = functions or []
        self.tier = tier
        self.assumptions = assumptions or []
        self.dropped = []
        self.complete, self.bound = True, None


def short_fn(f):
    f = re.sub(r"<[^<>]*>", "", f)
    f = re.sub(r"<[^<>]*>", "", f)
    return f


_UNSAFE_FREE = None


def repo_is_unsafe_free():
    """blots-core contains no `unsafe` code (token scan, tests excluded): then an allocator-model complaint raised inside
    Kani's C model of __rust_dealloc cannot originate in the code under contract."""
    global _UNSAFE_FREE
    if _UNSAFE_FREE is None:
        ok = True
        root = os.path.join(core.REPO, "blots-core", "src")
        for fn in os.listdir(root):
            if fn.endswith(".rs"):
                src = open(os.path.join(root, fn)).read()
                if core.find_code(src, "unsafe") >= 0:
                    ok = False
        _UNSAFE_FREE = ok
    return _UNSAFE_FREE


def is_memory_model_artefact(c):
    """Low-level memory-safety checks (pointer validity, allocator preconditions) that fail INSIDE std or Kani's C allocator
    model. blots-core contains no `unsafe` code (scanned on every run), and safe Rust cannot cause such a violation, so
    these come from the tool's model of std internals (zero-size String / Vec paths, lazily initialised statics) or from
    the harness's own raw-pointer probes - never from the code under contract. Panics (bounds, unwrap, overflow,
    unreachable) are `assertion` checks and are NOT covered by this rule."""
    if c.get("status") not in ("Failure", "Unknown", "Undetermined") or not repo_is_unsafe_free():
        return False
    fn = c.get("function", "")
    cat = c.get("category", "")
    file = (c.get("location") or {}).get("file", "")
    in_std = ("/rustlib/" in file) or file.endswith("kani_lib.c") or file.startswith("library/kani") or file.startswith("<builtin-library")
    if fn == "__rust_dealloc":
        return True
    return in_std and cat in ("pointer_dereference", "safety_check", "precondition_instance")


def classify_failure(unit, harness, c):
    """Map a failed Kani check to (kind, case). kind: spec | safety | undecided | artefact."""
    desc = c.get("description", "")
    cat = c.get("category", "")
    if is_memory_model_artefact(c):
        return "artefact", unit.uid, f"memory-model check inside std / Kani's allocator model: {desc}"
    m = SPEC_RE.match(desc.strip())
    if m:
        return "spec", m.group(1), m.group(2)
    if cat in ("unwind", "unsupported_construct") or "unwinding assertion" in desc:
        return "undecided", unit.uid, f"{cat}:{desc}"
    loc = c.get("location", {})
    file = loc.get("file", "")
    where = "std" if ("/rustlib/" in file or file.startswith("library/")) else os.path.basename(file)
    case = f"panic:{where}:{short_fn(c.get('function', ''))}:{desc.strip()}"
    return "safety", unit.uid, case


def scan_stubs_and_assumes(unit):
    """Mechanical scan of the unit's harness modules: every kani::stub target and every kani::assume (DESIGN 2.4)."""
    stubs, assumes = set(), []
    for parent, mod in getattr(unit, "modules", []):
        try:
            txt = open(os.path.join(core.VERIF, "kani", mod)).read()
        except Exception:
            continue
        for m in re.finditer(r"#\[kani::stub\(\s*([^,]+?)\s*,\s*([^)]+?)\s*\)\]", txt):
            stubs.add(f"{' '.join(m.group(1).split())} -> {m.group(2).strip()}")
        for m in re.finditer(r"kani::assume\(([^;]*)\);", txt):
            assumes.append(" ".join(m.group(1).split())[:120])
    return {"kani_stub": sorted(stubs), "kani_assume": sorted(set(assumes))}


def functions_under_contract(unit):
    out = []
    for f in unit.functions:
        file, name, within = (list(f) + [None])[:3]
        try:
            src = open(os.path.join(core.REPO, "blots-core", "src", file)).read()
            it = core.find_fn(src, name, file, within, unit=unit.uid)
            d = it.describe()
            d["fn"] = (within + "::" if within else "") + name
            out.append(d)
        except Undecided as e:
            out.append({"file": file, "fn": name, "error": str(e)})
    return out


def run_property(pid, units, tier, level, level_note_assumptions, not_decided, seed=0, explanation=""):
    t0 = time.time()
    units = [u for u in units if tier == "thorough" or u.tier == "quick"]
    known = core.load_known()
    os.makedirs(core.EVIDENCE_DIR, exist_ok=True)
    os.makedirs(core.REPLAY_DIR, exist_ok=True)

    obligations = discharged = 0
    bounded_obl = bounded_dis = 0
    artefacts = []     # allocator-model complaints inside Kani's __rust_dealloc (ignored: blots-core has no unsafe code)
    failures = []      # dicts: unit, harness, kind, case, check
    undecided = []     # strings
    unit_reports = []
    samples = []
    solver_s = 0.0
    cmds = []
    transformations = []

    kunits = [u for u in units if u.engine == "kani"]
    vunits = [u for u in units if u.engine == "verus"]
    aunits = [u for u in units if u.engine == "audit"]

    # ---------------- Kani ----------------
    acc = {"obligations": 0, "discharged": 0, "bounded_obl": 0, "bounded_dis": 0, "solver_s": 0.0}

    def kani_pass(kunits, allow_split):
        nonlocal transformations
        if kunits:
            with core.Scratch(tag=pid) as sc:
                done_mod = set()
                ok_units = []
                for u in kunits:
                    try:
                        if u.prepare:
                            u.prepare(sc)
                        for parent, mod in u.modules:
                            if (parent, mod) not in done_mod:
                                sc.append_module(parent, gen.expand(mod, os.path.join(sc.dir, "gen")))
                                done_mod.add((parent, mod))
                        ok_units.append(u)
                    except Undecided as e:
                        undecided.append(str(e))
                        unit_reports.append({"unit": u.uid, "engine": "kani", "status": "undecided", "reason": str(e)})
                    except Exception as e:  # extraction bug or unexpected source shape: never an alarm
                        undecided.append(f"UNDECIDED unit={u.uid} reason=prepare-failed {e!r}")
                        unit_reports.append({"unit": u.uid, "engine": "kani", "status": "undecided", "reason": repr(e)})
                transformations = transformations + sc.injected
                groups = {}
                for u in ok_units:
                    groups.setdefault((u.extra, u.timeout), []).append(u)
                for (extra, timeout), us in groups.items():
                    hs = [h for u in us for h in u.harnesses]
                    log(f"[{pid}] kani: {len(hs)} harnesses, timeout {timeout}s, extra={list(extra)}")
                    r = core.run_kani(sc, hs, harness_timeout=timeout, jobs=int(os.environ.get("VERIF_JOBS", "8")),
                                      extra=list(extra), tag=f"g{len(cmds)}")
                    cmds.append(r["cmd"])
                    if r["compile_error"] and allow_split and len(kunits) > 1:
                        log(f"[{pid}] harness set does not compile; retrying each unit in its own scratch copy")
                        return "split"
                    if r["compile_error"]:
                        for u in us:
                            undecided.append(f"UNDECIDED unit={u.uid} reason=harness-does-not-compile")
                            unit_reports.append({"unit": u.uid, "engine": "kani", "status": "undecided",
                                                 "reason": "compile error (changed signature / lost anchor)",
                                                 "log_tail": r["log_tail"][-1500:]})
                        continue
                    for u in us:
                        rep = {"unit": u.uid, "title": u.title, "engine": "kani/cbmc-6.11 (cadical)", "complete": u.complete,
                               "bound": u.bound, "harnesses": {}, "functions": functions_under_contract(u),
                               "dropped_by_extraction": u.dropped, "stubs_and_assumes_in_harness_modules": scan_stubs_and_assumes(u)}
                        for h in u.harnesses:
                            hr = r["harnesses"].get(h)
                            checks = [c for c in hr["checks"] if c.get("category") != "cover" and not is_memory_model_artefact(c)]
                            for c in hr["checks"]:
                                if is_memory_model_artefact(c):
                                    artefacts.append({"unit": u.uid, "harness": h, "check": c.get("description", ""),
                                                      "function": short_fn(c.get("function", ""))[:120]})
                            covers = [c for c in hr["checks"] if c.get("category") == "cover"]
                            n = len(checks)
                            ok = sum(1 for c in checks if c["status"] in ("Success", "Unreachable"))
                            st = hr["stats"] or {}
                            ss = float(st.get("runtime_solver_s", 0) or 0) + float(st.get("runtime_symex_s", 0) or 0)
                            acc["solver_s"] += ss
                            rep["harnesses"][h] = {"status": hr["status"], "checks": n, "ok": ok,
                                                   "cbmc_symex_plus_solver_s": round(ss, 2), "wall_s": hr["duration_s"],
                                                   "covers": {c["description"]: c["status"] for c in covers}}
                            if hr["status"] in ("timeout", "error", "undetermined"):
                                undecided.append(f"UNDECIDED unit={u.uid} harness={h} reason={hr['status']}")
                                continue
                            if n == 0:
                                undecided.append(f"UNDECIDED unit={u.uid} harness={h} reason=zero-obligations")
                                continue
                            has_failure = any(c["status"] == "Failure" for c in checks)
                            # vacuity guard - only when nothing failed: Kani assumes an assertion after checking it, so a
                            # failing obligation can make the covers behind it unreachable; a failure must never be hidden
                            if not has_failure and u.expect_cover and (not covers or any(c["status"] != "Satisfied" for c in covers)):
                                undecided.append(f"UNDECIDED unit={u.uid} harness={h} reason=vacuity-guard(cover not satisfied)")
                                continue
                            if u.complete:
                                acc["obligations"] += n; acc["discharged"] += ok
                            else:
                                acc["bounded_obl"] += n; acc["bounded_dis"] += ok
                            for c in checks:
                                if c["status"] == "Failure":
                                    kind, cu, case = classify_failure(u, h, c)
                                    if kind == "undecided":
                                        undecided.append(f"UNDECIDED unit={u.uid} harness={h} reason={case}")
                                    elif kind == "artefact":
                                        artefacts.append({"unit": u.uid, "harness": h, "check": case})
                                    else:
                                        failures.append({"unit": u.uid, "harness": h, "kind": kind, "case": case, "check": c,
                                                         "replay": u.replay})
                            spec_ok = [c for c in checks if c["status"] == "Success" and SPEC_RE.match(c["description"].strip())]
                            for c in spec_ok[:2]:
                                samples.append({"unit": u.uid, "harness": h, "obligation": c["description"].strip('"'),
                                                "status": "discharged"})
                        unit_reports.append(rep)

                # replay of failures while the scratch copy still exists
                for f in failures:
                    if core.known_match(known, pid, f["unit"], f["case"]):
                        continue
                    f["replay_result"] = make_replay(pid, f, sc)


    if kani_pass(kunits, True) == "split":
        failures.clear(); undecided.clear(); unit_reports.clear(); samples.clear(); cmds.clear()
        transformations = []
        for u in kunits:
            kani_pass([u], False)
    obligations += acc["obligations"]; discharged += acc["discharged"]
    bounded_obl += acc["bounded_obl"]; bounded_dis += acc["bounded_dis"]; solver_s += acc["solver_s"]

    # ---------------- Verus ----------------
    for u in vunits:
        import tempfile, shutil
        wd = tempfile.mkdtemp(prefix=f"blots-verif.v.{pid}.")
        try:
            path, meta = u.build(wd)
            r = core.run_verus(path, timeout=u.timeout)
            cmds.append(r["cmd"])
            j = r["json"]
            rep = {"unit": u.uid, "title": u.title, "engine": "verus 0.2026.09.13 (z3)", "complete": True,
                   "functions": meta.get("functions", []), "dropped_by_extraction": u.dropped,
                   "extraction": meta.get("extraction", [])}
            transformations += meta.get("extraction", [])
            if not j or "verification-results" not in j:
                # front-end rejection (unsupported construct / changed signature): undecided
                undecided.append(f"UNDECIDED unit={u.uid} reason=verus-front-end")
                rep["status"] = "undecided"; rep["raw_tail"] = r["raw_tail"][-2000:]
                unit_reports.append(rep)
                continue
            vr = j["verification-results"]
            nver, nerr = vr.get("verified", 0), vr.get("errors", 0)
            if not vr.get("encountered-vir-error", False) and nver + nerr > 0:
                obligations += nver + nerr; discharged += nver
                tt = j.get("times-ms", {})
                smt = tt.get("smt", {}).get("total", 0) if isinstance(tt.get("smt"), dict) else 0
                solver_s += smt / 1000.0
                rep["verified"], rep["errors"], rep["smt_ms"] = nver, nerr, smt
                samples.append({"unit": u.uid, "obligation": f"{nver} function-level obligations verified by verus",
                                "status": "discharged" if nerr == 0 else "failed"})
                if nerr:
                    diag = r.get("diagnostics", "") or r["raw_tail"]
                    bad = []
                    smt = tt.get("smt", {}) if isinstance(tt.get("smt"), dict) else {}
                    for mod in smt.get("smt-run-module-times", []):
                        for fb in mod.get("function-breakdown", []):
                            if not fb.get("success", True):
                                bad.append(fb["function"].split("::", 1)[-1])
                    msgs = re.findall(r"error: ([^\n]+)", diag)
                    for fn in (bad or ["unlocated"]):
                        failures.append({"unit": u.uid, "harness": "verus", "kind": "spec",
                                         "case": f"{fn}:contract-not-discharged",
                                         "check": {"description": "; ".join(msgs[:6]), "verus_output": diag[-4000:]},
                                         "replay": None})
            else:
                undecided.append(f"UNDECIDED unit={u.uid} reason=verus-vir-error")
                rep["status"] = "undecided"; rep["raw_tail"] = r["raw_tail"][-2000:]
            unit_reports.append(rep)
        except Undecided as e:
            undecided.append(str(e))
            unit_reports.append({"unit": u.uid, "engine": "verus", "status": "undecided", "reason": str(e)})
        finally:
            shutil.rmtree(wd, ignore_errors=True)
        for f in failures:
            if f["unit"] == u.uid and "replay_result" not in f and not core.known_match(known, pid, f["unit"], f["case"]):
                f["replay_result"] = make_replay(pid, f, None)

    # ---------------- Audits ----------------
    for u in aunits:
        try:
            obs = u.run()
            rep = {"unit": u.uid, "title": u.title, "engine": "frame audit (token scan of /repo; not a solver obligation)",
                   "obligations": len(obs)}
            for o in obs:
                obligations += 1
                if o["ok"]:
                    discharged += 1
                else:
                    f = {"unit": u.uid, "harness": "audit", "kind": "spec", "case": o["case"],
                         "check": {"description": o.get("detail", "")}, "replay": None}
                    failures.append(f)
                    if not core.known_match(known, pid, u.uid, o["case"]):
                        f["replay_result"] = make_replay(pid, f, None)
            if obs:
                samples.append({"unit": u.uid, "obligation": obs[0]["case"], "status": "discharged" if obs[0]["ok"] else "failed"})
            unit_reports.append(rep)
        except Undecided as e:
            undecided.append(str(e))
            unit_reports.append({"unit": u.uid, "engine": "audit", "status": "undecided", "reason": str(e)})

    # ---------------- verdict ----------------
    violations = []
    known_lines = []
    for f in failures:
        k = core.known_match(known, pid, f["unit"], f["case"])
        if k:
            known_lines.append(f"KNOWN-FINDING: property={pid} unit={f['unit']} case={f['case']} -- {k.get('what', '')}")
        else:
            violations.append(f)
    for l in sorted(set(known_lines)):
        print(l)
    seen = set()
    for f in violations:
        rr = f.get("replay_result") or {}
        key = (f["unit"], f["case"])
        if key in seen:
            continue
        seen.add(key)
        suffix = "" if rr.get("confirmed") else " no-failing-input-found"
        print(f"VIOLATION property={pid} replay={rr.get('path', '?')} unit={f['unit']} obligation={f['case']}{suffix}")
    for l in undecided:
        print(l)

    wall = time.time() - t0
    all_assumptions = list(level_note_assumptions)
    for u in units:
        for a in u.assumptions:
            if a not in all_assumptions:
                all_assumptions.append(a)
    if not samples:
        samples = [{"note": "no discharged spec obligation sampled (see units)"}]
    known_hit = sorted(set(known_lines))
    ev = {
        "property_id": pid, "tier": tier, "seed": seed, "level": level,
        "coverage": {
            "obligations": obligations, "discharged": discharged,
            "checker_cmd": " ; ".join(cmds) if cmds else "frame audit only",
            "trusted_base": ["rustc/MIR as compiled by kani-compiler 0.68", "CBMC 6.11 + CaDiCaL", "Verus 0.2026.09.13 + Z3",
                             "vstd specifications of Vec", "extractor /verif/vlib (brace matching)"],
            "explanation": explanation,
            "bounded_units": {"obligations": bounded_obl, "discharged": bounded_dis,
                              "note": "bounded stand-ins, NOT counted in obligations/discharged"},
            "failed_obligations_known_findings": known_hit,
            "solver_time_s": round(solver_s, 2),
            "units": unit_reports,
            "transformations": transformations,
            "not_decided": not_decided,
            "samples": samples[:12],
            "undecided": undecided,
            "tool_model_artefacts_ignored": {
                "count": len(artefacts), "items": artefacts[:10],
                "why": "pointer-validity / allocator-precondition checks that fail inside std or Kani's C allocator model (zero-size "
                       "String/Vec paths, the lazily initialised profiling Vec); blots-core contains no unsafe code (token scan "
                       "on every run) and safe Rust cannot cause them, so they cannot originate in the code under contract; "
                       "they are neither counted as discharged nor reported; panics (assertion checks) are never set aside"},
        },
        "assumptions": all_assumptions,
        "wall_s": round(wall, 1),
        "violations": len(seen),
    }
    with open(os.path.join(core.EVIDENCE_DIR, f"{pid}.json"), "w") as fh:
        json.dump(ev, fh, indent=1, default=str)
    log(f"[{pid}] obligations={obligations} discharged={discharged} bounded={bounded_dis}/{bounded_obl} "
        f"known={len(known_hit)} violations={len(seen)} undecided={len(undecided)} wall={wall:.0f}s")
    if seen:
        return 1
    if undecided:
        return 2
    return 0


def make_replay(pid, f, scratch):
    """Write a replay file for a failed obligation; try to confirm on real code."""
    os.makedirs(core.REPLAY_DIR, exist_ok=True)
    name = re.sub(r"[^A-Za-z0-9_.=-]+", "_", f"{pid}_{f['unit']}_{f['case']}")[:150]
    path = os.path.join(core.REPLAY_DIR, name + ".json")
    out = {"property": pid, "unit": f["unit"], "harness": f["harness"], "obligation": f["case"], "kind": f["kind"],
           "verifier_check": f["check"], "confirmed": False}
    try:
        if f.get("replay"):
            out.update(f["replay"](f, scratch) or {})
        if not out.get("confirmed") and scratch is not None and f["harness"] not in ("verus", "audit"):
            out.update(generic_playback(f, scratch))
    except Exception as e:
        out["replay_error"] = repr(e)
    with open(path, "w") as fh:
        json.dump(out, fh, indent=1, default=str)
    out["path"] = path
    return out


def generic_playback(f, scratch):
    """Kani concrete playback: get the counterexample of the failed check as a unit test and run it NATIVELY on
    the real code (the harness is the driver, kani::any() returns the counterexample bytes, stubs are not applied)."""
    res = {}
    cmd = ["cargo", "kani", "-p", "blots-core"] + core.KANI_BASE_FLAGS + [
        "-Z", "concrete-playback", "--concrete-playback=print", "--harness", f["harness"]]
    rc, out, wall, to = core.run_cmd(cmd, cwd=scratch.dir, timeout=1500, env={"CARGO_TARGET_DIR": core.KANI_TARGET})
    if to:
        res["playback"] = "timeout generating counterexample"
        return res
    want = f["check"].get("description", "").strip().strip('"')
    blocks = re.findall(r"```\n(.*?)```", out, flags=re.S)
    chosen = {}
    for b in blocks:
        m = re.search(r"/// Check for `(\w+)`: \"?(.*?)\"?\n", b)
        n = re.search(r"fn (kani_concrete_playback_\w+)\s*\(", b)
        if not m or not n or m.group(1) == "cover":
            continue
        if want and want not in m.group(2) and m.group(2) not in want:
            continue
        chosen[n.group(1)] = b
    if not chosen:
        res["playback"] = "kani produced no concrete counterexample for this check"
        res["kani_tail"] = out[-1500:]
        return res
    res["counterexample_tests"] = [{"name": n, "test": b[-3000:]} for n, b in list(chosen.items())[:4]]
    # the harness lives in a module file named after the location of the failed check
    modfile = None
    for root, _, files in os.walk(os.path.join(scratch.dir, "blots-core", "src")):
        for fn in files:
            pth = os.path.join(root, fn)
            if re.search(r"fn " + re.escape(f["harness"]) + r"\s*\(", open(pth, errors="replace").read()):
                modfile = pth
    if not modfile:
        res["playback"] = "harness module not found"
        return res
    with open(modfile, "a") as fh:
        for n, b in list(chosen.items())[:4]:
            if n not in open(modfile).read():
                fh.write("\n" + b + "\n")
    confirmed = []
    for n in list(chosen)[:4]:
        cmd = ["cargo", "kani", "playback", "-Z", "concrete-playback", "-p", "blots-core", "--", n]
        rc2, out2, w2, to2 = core.run_cmd(cmd, cwd=scratch.dir, timeout=1500,
                                          env={"CARGO_TARGET_DIR": os.path.join(core.CACHE, "playback-target")})
        ran = bool(re.search(r"running 1 test", out2))
        failed = ran and bool(re.search(r"test result: FAILED|panicked at", out2))
        pan = re.findall(r"panicked at [^\n]*\n[^\n]*", out2)
        confirmed.append({"test": n, "ran": ran, "native_run_failed": failed, "panic": pan[:2], "tail": out2[-800:]})
    res["native_playback"] = confirmed
    res["confirmed"] = any(c["native_run_failed"] for c in confirmed)
    return res
