// Injected (rule T1) as a child module of blots-core/src/expressions.rs under #[cfg(kani)].
// U-HOF (C13): `list via f` / map(list, f) and `list where p` / filter(list, p) make the SAME sequence of callback
// invocations - element, plus the 0-based index when the callee accepts a second argument, in list order, with the
// function value as self-reference - and assemble / filter the callback results in order; a failing callback fails the
// whole form at once. Both forms are proved against this one specification, so they agree with each other.
// BOUNDED: lists of length 0..=2. The callback is a probe (contract of FunctionDef::call).
use super::*;
use crate::functions::{BuiltInFunction, FunctionDef};
use crate::verif_common::same_bits;

fn same_value(a: &Value, b: &Value) -> bool {
    match (a, b) {
        (Value::Number(x), Value::Number(y)) => same_bits(*x, *y),
        (Value::Bool(x), Value::Bool(y)) => x == y,
        (Value::Null, Value::Null) => true,
        (Value::BuiltIn(x), Value::BuiltIn(y)) => x == y,
        _ => false,
    }
}

static mut CALLS: usize = 0;
static mut ARG0: [Option<Value>; 2] = [None, None];
static mut ARG1: [Option<Value>; 2] = [None, None];
static mut NARGS: [usize; 2] = [0, 0];
static mut THIS: [Option<Value>; 2] = [None, None];
static mut DEPTH: [usize; 2] = [0, 0];
static mut SCRIPT: [Option<Value>; 2] = [None, None];   // None = the callback fails

fn probe_call(
    _this: &FunctionDef, this_value: Value, args: Vec<Value>, _h: Rc<RefCell<Heap>>, _b: Rc<Environment>, depth: usize, _s: &str,
) -> Result<Value, RuntimeError> {
    let i = unsafe { CALLS };
    unsafe { CALLS = i + 1; }
    let r = if i < 2 {
        unsafe {
            NARGS[i] = args.len();
            ARG0[i] = if args.len() > 0 { Some(args[0]) } else { None };
            ARG1[i] = if args.len() > 1 { Some(args[1]) } else { None };
            THIS[i] = Some(this_value);
            DEPTH[i] = depth;
            SCRIPT[i]
        }
    } else { None };
    std::mem::forget(args);
    match r { Some(v) => Ok(v), None => Err(RuntimeError::new(String::new())) }
}

fn stringify_stub(_v: &Value, _h: &Heap) -> String { String::new() }

fn list_of(heap: &Rc<RefCell<Heap>>, n: usize, a: Value, b: Value) -> crate::heap::ListPointer {
    let mut v = Vec::new();
    if n > 0 { v.push(a); }
    if n > 1 { v.push(b); }
    match heap.borrow_mut().insert_list(v) { Value::List(p) => p, _ => unreachable!() }
}

fn script_value(filtering: bool) -> Option<Value> {
    let k: u8 = kani::any();
    match k % 3 {
        0 => None,
        1 => Some(Value::Bool(kani::any())),
        _ => if filtering { Some(Value::Number(kani::any())) } else { Some(Value::Number(kani::any())) },
    }
}

/// which = 0: `list via f` (operator arm)   1: map(list, f)   2: `list where p`   3: filter(list, p)
fn hof_contract(which: u8, callee: BuiltInFunction, n: usize) {
    let heap = Rc::new(RefCell::new(Heap::verif_empty()));
    let env = Rc::new(Environment::new());
    let (a, b) = (Value::Number(kani::any()), Value::Number(kani::any()));
    let items = [a, b];
    let list = list_of(&heap, n, a, b);
    let f = Value::BuiltIn(callee);
    let filtering = which >= 2;
    let s0 = script_value(filtering);
    let s1 = script_value(filtering);
    unsafe { SCRIPT = [s0, s1]; }
    let depth: usize = 7;
    let src: Rc<str> = Rc::from("");
    let r = match which {
        0 => verif_binop_list_scalar(BinaryOp::Via, Value::List(list), list, f, Rc::clone(&heap), Rc::clone(&env), depth, src, Span::dummy()),
        1 => BuiltInFunction::Map.call(vec![Value::List(list), f], Rc::clone(&heap), Rc::clone(&env), depth, ""),
        2 => verif_binop_list_scalar(BinaryOp::Where, Value::List(list), list, f, Rc::clone(&heap), Rc::clone(&env), depth, src, Span::dummy()),
        _ => BuiltInFunction::Filter.call(vec![Value::List(list), f], Rc::clone(&heap), Rc::clone(&env), depth, ""),
    };
    let with_index = callee.arity().can_accept(2);
    let script = [s0, s1];
    // expected number of invocations: up to and including the first failing one
    let ok = |v: &Option<Value>| -> bool { match v { None => false, Some(Value::Bool(_)) => true, Some(_) => !filtering } };
    let mut expect_calls = 0;
    let mut all_ok = true;
    let mut i = 0;
    while i < n {
        expect_calls += 1;
        if !ok(&script[i]) { all_ok = false; break; }
        i += 1;
    }
    let calls = unsafe { CALLS };
    assert!(calls == expect_calls, "U-HOF#callback-invoked-once-per-element-in-order-until-the-first-failure");
    let mut j = 0;
    while j < calls && j < 2 {
        unsafe {
            assert!(matches!(&ARG0[j], Some(v) if same_value(v, &items[j])), "U-HOF#callback-receives-the-element");
            if with_index {
                assert!(NARGS[j] == 2 && matches!(&ARG1[j], Some(Value::Number(x)) if *x == j as f64), "U-HOF#callback-receives-the-0-based-index-when-it-accepts-one");
            } else {
                assert!(NARGS[j] == 1, "U-HOF#callback-receives-only-the-element-otherwise");
            }
            assert!(matches!(&THIS[j], Some(t) if same_value(t, &f)), "U-HOF#self-reference-is-the-function-value");
            assert!(DEPTH[j] >= depth && DEPTH[j] <= depth + 1, "U-HOF#call-depth-threaded");
        }
        j += 1;
    }
    if !all_ok {
        assert!(r.is_err(), "U-HOF#failure-of-a-callback-fails-the-whole-form");
    } else {
        match &r {
            Ok(Value::List(p)) => {
                let hb = heap.borrow();
                match hb.get(p.index()) {
                    Some(HeapValue::List(out)) => {
                        if !filtering {
                            assert!(out.len() == n, "U-HOF#map-result-has-one-entry-per-element");
                            let mut k = 0;
                            while k < n { assert!(same_value(&out[k], &script[k].unwrap()), "U-HOF#map-result-is-the-callback-results-in-order"); k += 1; }
                        } else {
                            let keep0 = n > 0 && matches!(script[0], Some(Value::Bool(true)));
                            let keep1 = n > 1 && matches!(script[1], Some(Value::Bool(true)));
                            let want = (keep0 as usize) + (keep1 as usize);
                            assert!(out.len() == want, "U-HOF#filter-keeps-exactly-the-elements-whose-predicate-is-true");
                            if keep0 { assert!(same_value(&out[0], &a), "U-HOF#filter-keeps-order"); }
                            if keep1 { assert!(same_value(&out[want - 1], &b), "U-HOF#filter-keeps-order"); }
                        }
                    }
                    _ => assert!(false, "U-HOF#result-is-a-list"),
                }
            }
            _ => assert!(false, "U-HOF#succeeds-with-a-list-when-every-callback-succeeds"),
        }
    }
    kani::cover!(calls == 2 && r.is_ok(), "reach-two-calls-ok");
    kani::cover!(r.is_err(), "reach-failure");
    std::mem::forget(r); std::mem::forget(heap); std::mem::forget(env);
}

macro_rules! hof_harness {
    ($name:ident, $which:expr, $callee:expr) => {
        #[kani::proof]
        #[kani::unwind(4)]
        #[kani::stub(alloc::fmt::format, crate::verif_common::fmt_stub)]
        #[kani::stub(std::backtrace::Backtrace::capture, crate::verif_common::bt_stub)]
        #[kani::stub(<crate::error::RuntimeError as std::convert::From<::anyhow::Error>>::from, crate::verif_common::from_anyhow_stub)]
        #[kani::stub(std::hash::RandomState::new, crate::verif_common::rs_stub)]
        #[kani::stub(crate::functions::FunctionDef::call, probe_call)]
        #[kani::stub(crate::values::Value::stringify_internal, stringify_stub)]
        fn $name() {
            let n: u8 = kani::any();
            match n % 3 {
                0 => hof_contract($which, $callee, 0),
                1 => hof_contract($which, $callee, 1),
                _ => hof_contract($which, $callee, 2),
            }
        }
    };
}

// callee arity classes: abs = exactly 1 (no index), round = between 1 and 2 (index passed)
hof_harness!(u_hof_via_unary, 0, BuiltInFunction::Abs);
hof_harness!(u_hof_via_indexed, 0, BuiltInFunction::Round);
hof_harness!(u_hof_map_unary, 1, BuiltInFunction::Abs);
hof_harness!(u_hof_map_indexed, 1, BuiltInFunction::Round);
hof_harness!(u_hof_where_unary, 2, BuiltInFunction::Abs);
hof_harness!(u_hof_where_indexed, 2, BuiltInFunction::Round);
hof_harness!(u_hof_filter_unary, 3, BuiltInFunction::Abs);
hof_harness!(u_hof_filter_indexed, 3, BuiltInFunction::Round);
