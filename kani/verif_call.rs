// Injected (rule T1) as a child module of blots-core/src/functions.rs under #[cfg(kani)].
// U-DEPTH / U-BIND / U-BIND-SAFE: contracts of FunctionDef::call. The callees evaluate_ast (lambda body)
// and BuiltInFunction::call are replaced by probes that record what they receive and return an arbitrary
// result: FunctionDef::call is verified against their contracts, not their bodies.
use super::*;
use crate::ast::{Expr, Spanned, SpannedExpr};
use crate::values::CapturedScope;

fn any_scalar() -> Value {
    let k: u8 = kani::any();
    match k % 3 {
        0 => Value::Number(kani::any()),
        1 => Value::Bool(kani::any()),
        _ => Value::Null,
    }
}

fn same_value(a: &Value, b: &Value) -> bool {
    match (a, b) {
        (Value::Number(x), Value::Number(y)) => crate::verif_common::same_bits(*x, *y),
        (Value::Bool(x), Value::Bool(y)) => x == y,
        (Value::Null, Value::Null) => true,
        (Value::List(x), Value::List(y)) => x.index() == y.index(),
        (Value::BuiltIn(x), Value::BuiltIn(y)) => x == y,
        _ => false,
    }
}

// ---- probes -------------------------------------------------------------------------------------------
static mut EVAL_CALLS: usize = 0;
static mut EVAL_DEPTH: usize = 0;
static mut EVAL_ENV: Option<Rc<Environment>> = None;
static mut EVAL_RET: Option<Value> = None;
static mut BUILTIN_CALLS: usize = 0;
static mut BUILTIN_DEPTH: usize = 0;
static mut BUILTIN_NARGS: usize = 0;

fn probe_eval(
    _expr: &SpannedExpr,
    heap: Rc<RefCell<Heap>>,
    bindings: Rc<Environment>,
    call_depth: usize,
    source: Rc<str>,
) -> Result<Value, RuntimeError> {
    // never run Rc drop glue in a probe: CBMC would explore "last reference => drop the whole heap" (every HeapValue
    // variant, recursively through Expr) at each call
    std::mem::forget(heap);
    std::mem::forget(source);
    unsafe {
        EVAL_CALLS += 1;
        EVAL_DEPTH = call_depth;
        EVAL_ENV = Some(bindings);
    }
    if kani::any() {
        let v = any_scalar();
        unsafe { EVAL_RET = Some(v); }
        Ok(v)
    } else {
        unsafe { EVAL_RET = None; }
        Err(RuntimeError::new(String::new()))
    }
}

fn probe_builtin(
    _this: &BuiltInFunction,
    args: Vec<Value>,
    heap: Rc<RefCell<Heap>>,
    bindings: Rc<Environment>,
    call_depth: usize,
    _source: &str,
) -> Result<Value, RuntimeError> {
    std::mem::forget(heap);
    std::mem::forget(bindings);
    unsafe {
        BUILTIN_CALLS += 1;
        BUILTIN_DEPTH = call_depth;
        BUILTIN_NARGS = args.len();
    }
    std::mem::forget(args);
    if kani::any() { Ok(any_scalar()) } else { Err(RuntimeError::new(String::new())) }
}

fn take_eval_env() -> Option<Rc<Environment>> {
    unsafe { (*std::ptr::addr_of_mut!(EVAL_ENV)).take() }
}

fn eval_ret() -> Option<Value> {
    unsafe { EVAL_RET }
}

fn name_stub(_f: &FunctionDef) -> String {
    String::new()
}

fn args_vec(n: usize) -> Vec<Value> {
    let mut v = Vec::new();
    let mut i = 0;
    while i < n { v.push(any_scalar()); i += 1; }
    v
}

fn body() -> SpannedExpr {
    Spanned::dummy(Expr::Null)
}

// ---- U-DEPTH (built-ins): all 69 built-ins x arg counts 0..=4 x every usize depth ----------------------
#[kani::proof]
#[kani::unwind(6)]
#[kani::stub(alloc::fmt::format, crate::verif_common::fmt_stub)]
#[kani::stub(std::hash::RandomState::new, crate::verif_common::rs_stub)]
#[kani::stub(std::time::Instant::now, crate::verif_common::instant_stub)]
#[kani::stub(crate::functions::BuiltInFunction::call, probe_builtin)]
#[kani::stub(crate::expressions::evaluate_ast, probe_eval)]
#[kani::stub(crate::functions::FunctionDef::get_name, name_stub)]
fn u_depth_builtin() {
    let b: BuiltInFunction = kani::any();
    let n: usize = kani::any();
    kani::assume(n <= 4);
    let depth: usize = kani::any();
    let f = FunctionDef::BuiltIn(b);
    let heap = Rc::new(RefCell::new(Heap::verif_empty()));
    let env = Rc::new(Environment::new());
    let r = f.call(Value::Null, args_vec(n), Rc::clone(&heap), Rc::clone(&env), depth, "");
    let calls = unsafe { BUILTIN_CALLS };
    let accepted = b.arity().can_accept(n);
    if !accepted {
        assert!(r.is_err() && calls == 0, "U-DEPTH#builtin:rejected-argument-count-is-an-error-before-the-builtin-runs");
    } else if depth > 1000 {
        assert!(r.is_err() && calls == 0, "U-DEPTH#builtin:depth-over-1000-is-an-error-before-the-builtin-runs");
    } else {
        assert!(calls == 1, "U-DEPTH#builtin:entered-exactly-once");
        unsafe {
            assert!(BUILTIN_DEPTH == depth + 1, "U-DEPTH#builtin:callee-receives-depth-plus-one");
            assert!(BUILTIN_NARGS == n, "U-DEPTH#builtin:all-arguments-passed");
        }
    }
    assert!(unsafe { EVAL_CALLS } == 0, "U-DEPTH#builtin:no-body-evaluation");
    kani::cover!(accepted && depth == 1000 && calls == 1, "reach-depth-1000-still-runs");
    kani::cover!(accepted && depth == 1001 && r.is_err(), "reach-depth-1001-fails");
    std::mem::forget(r);
    std::mem::forget(heap);
    std::mem::forget(env);
}

// ---- lambdas ------------------------------------------------------------------------------------------
// parameter kinds: 0 required, 1 optional, 2 rest; names are the fixed pool p0..p3
fn param(kind: u8, i: usize) -> LambdaArg {
    let name = match i { 0 => "p0", 1 => "p1", 2 => "p2", _ => "p3" }.to_string();
    match kind {
        0 => LambdaArg::Required(name),
        1 => LambdaArg::Optional(name),
        _ => LambdaArg::Rest(name),
    }
}

fn lambda(kinds: &[u8], np: usize) -> LambdaDef {
    let mut args = Vec::new();
    let mut i = 0;
    while i < np { args.push(param(kinds[i], i)); i += 1; }
    LambdaDef { name: None, args, body: body(), scope: CapturedScope::default(), source: Rc::from("") }
}

/// the documented shape: required*, optional*, at most one trailing rest
fn documented_shape(kinds: &[u8], np: usize) -> bool {
    let mut i = 0;
    let mut stage = 0u8;
    while i < np {
        let k = kinds[i];
        if k < stage { return false; }
        if k == 2 && i + 1 != np { return false; }
        stage = k;
        i += 1;
    }
    true
}

fn count(kinds: &[u8], np: usize, k: u8) -> usize {
    let mut i = 0; let mut c = 0;
    while i < np { if kinds[i] == k { c += 1; } i += 1; }
    c
}

// U-ARITY (lambda): get_arity / check_arity of every parameter list of the documented shape (<= 3 parameters)
#[kani::proof]
#[kani::unwind(6)]
#[kani::stub(alloc::fmt::format, crate::verif_common::fmt_stub)]
#[kani::stub(std::hash::RandomState::new, crate::verif_common::rs_stub)]
#[kani::stub(crate::functions::FunctionDef::get_name, name_stub)]
fn u_arity_lambda() {
    let np: usize = kani::any();
    kani::assume(np <= 3);
    let kinds: [u8; 3] = kani::any();
    kani::assume(kinds[0] < 3 && kinds[1] < 3 && kinds[2] < 3);
    kani::assume(documented_shape(&kinds, np));
    let def = lambda(&kinds, np);
    let (r, o, rest) = (count(&kinds, np, 0), count(&kinds, np, 1), count(&kinds, np, 2));
    let a = def.get_arity();
    if rest == 1 { assert!(matches!(a, FunctionArity::AtLeast(m) if m == r), "U-ARITY#lambda:rest-parameter-gives-at-least-required"); }
    else if o == 0 { assert!(matches!(a, FunctionArity::Exact(m) if m == r), "U-ARITY#lambda:only-required-gives-exact"); }
    else { assert!(matches!(a, FunctionArity::Between(lo, hi) if lo == r && hi == r + o), "U-ARITY#lambda:optionals-give-between"); }
    let n: usize = kani::any();
    let f = FunctionDef::Lambda(def);
    let chk = f.check_arity(n);
    let ok = chk.is_ok();
    std::mem::forget(chk);
    let want = if rest == 1 { n >= r } else { r <= n && n <= r + o };
    assert!(ok == want, "U-ARITY#lambda:any-other-argument-count-is-reported-as-an-error");
    kani::cover!(rest == 1 && o == 1 && r == 1, "reach-req-opt-rest");
    kani::cover!(np == 0, "reach-nullary");
    std::mem::forget(f);
}

// ---- U-DEPTH (lambdas): an anonymous nullary lambda with an empty captured scope - the smallest lambda, so that the
// binding loop and the heap are not involved (with parameters FunctionDef::call is intractable, see the DESIGN notes).
#[kani::proof]
#[kani::unwind(4)]
#[kani::stub(alloc::fmt::format, crate::verif_common::fmt_stub)]
#[kani::stub(std::time::Instant::now, crate::verif_common::instant_stub)]
#[kani::stub(crate::functions::BuiltInFunction::call, probe_builtin)]
#[kani::stub(crate::expressions::evaluate_ast, probe_eval)]
#[kani::stub(crate::functions::FunctionDef::get_name, name_stub)]
fn u_depth_lambda() {
    let n: u8 = kani::any();
    match n % 2 {
        0 => depth_lambda_case(0),
        _ => depth_lambda_case(1),
    }
}

fn depth_lambda_case(n: usize) {
    let def = lambda(&[0, 0, 0], 0);
    let f = FunctionDef::Lambda(def);
    let heap = Rc::new(RefCell::new(Heap::verif_empty()));
    let env = Rc::new(Environment::new());
    let depth: usize = kani::any();
    let r = f.call(Value::Null, args_vec(n), Rc::clone(&heap), Rc::clone(&env), depth, "");
    let calls = unsafe { EVAL_CALLS };
    if n != 0 {
        assert!(r.is_err() && calls == 0, "U-DEPTH#lambda:rejected-argument-count-is-an-error-before-the-body-runs");
    } else if depth > 1000 {
        assert!(r.is_err() && calls == 0, "U-DEPTH#lambda:depth-over-1000-is-an-error-before-the-body-runs");
    } else {
        assert!(calls == 1, "U-DEPTH#lambda:body-evaluated-exactly-once");
        assert!(unsafe { EVAL_DEPTH } == depth + 1, "U-DEPTH#lambda:body-receives-depth-plus-one");
        match (&r, &eval_ret()) {
            (Ok(v), Some(w)) => assert!(same_value(v, w), "U-DEPTH#lambda:result-is-the-body-result"),
            (Err(_), None) => {}
            _ => assert!(false, "U-DEPTH#lambda:success-and-failure-propagate"),
        }
    }
    assert!(unsafe { BUILTIN_CALLS } == 0, "U-DEPTH#lambda:no-builtin-entered");
    kani::cover!(n == 0 && depth == 1000 && calls == 1, "reach-depth-1000-still-runs");
    kani::cover!(n == 0 && depth == 1001 && r.is_err(), "reach-depth-1001-fails");
    std::mem::forget(r); std::mem::forget(f); std::mem::forget(heap); std::mem::forget(env);
    std::mem::forget(take_eval_env());
}
