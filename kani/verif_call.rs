// Injected (rule T1) as a child module of blots-core/src/functions.rs under #[cfg(kani)].
// U-DEPTH / U-BIND / U-BIND-SAFE: contracts of FunctionDef::call. The callees evaluate_ast (lambda body)
// and BuiltInFunction::call are replaced by probes that record what they receive and return an arbitrary
// result: FunctionDef::call is verified against their contracts, not their bodies.
use super::*;
use crate::ast::{Expr, Spanned, SpannedExpr};
use crate::values::CapturedScope;

fn any_scalar() -> Value {
    let k: u8 = kani::any();
    match k % 3 {
        0 => Value::Number(kani::any()),
        1 => Value::Bool(kani::any()),
        _ => Value::Null,
    }
}

fn same_value(a: &Value, b: &Value) -> bool {
    match (a, b) {
        (Value::Number(x), Value::Number(y)) => crate::verif_common::same_bits(*x, *y),
        (Value::Bool(x), Value::Bool(y)) => x == y,
        (Value::Null, Value::Null) => true,
        (Value::List(x), Value::List(y)) => x.index() == y.index(),
        (Value::BuiltIn(x), Value::BuiltIn(y)) => x == y,
        _ => false,
    }
}

// ---- probes -------------------------------------------------------------------------------------------
static mut EVAL_CALLS: usize = 0;
static mut EVAL_DEPTH: usize = 0;
static mut EVAL_ENV: Option<Rc<Environment>> = None;
static mut EVAL_RET: Option<Value> = None;
static mut BUILTIN_CALLS: usize = 0;
static mut BUILTIN_DEPTH: usize = 0;
static mut BUILTIN_NARGS: usize = 0;

fn probe_eval(
    _expr: &SpannedExpr,
    _heap: Rc<RefCell<Heap>>,
    bindings: Rc<Environment>,
    call_depth: usize,
    _source: Rc<str>,
) -> Result<Value, RuntimeError> {
    unsafe {
        EVAL_CALLS += 1;
        EVAL_DEPTH = call_depth;
        EVAL_ENV = Some(bindings);
    }
    if kani::any() {
        let v = any_scalar();
        unsafe { EVAL_RET = Some(v); }
        Ok(v)
    } else {
        unsafe { EVAL_RET = None; }
        Err(RuntimeError::new(String::new()))
    }
}

fn probe_builtin(
    _this: &BuiltInFunction,
    args: Vec<Value>,
    _heap: Rc<RefCell<Heap>>,
    _bindings: Rc<Environment>,
    call_depth: usize,
    _source: &str,
) -> Result<Value, RuntimeError> {
    unsafe {
        BUILTIN_CALLS += 1;
        BUILTIN_DEPTH = call_depth;
        BUILTIN_NARGS = args.len();
    }
    std::mem::forget(args);
    if kani::any() { Ok(any_scalar()) } else { Err(RuntimeError::new(String::new())) }
}

fn take_eval_env() -> Option<Rc<Environment>> {
    unsafe { (*std::ptr::addr_of_mut!(EVAL_ENV)).take() }
}

fn eval_ret() -> Option<Value> {
    unsafe { EVAL_RET }
}

fn name_stub(_f: &FunctionDef) -> String {
    String::new()
}

fn args_vec(n: usize) -> Vec<Value> {
    let mut v = Vec::new();
    let mut i = 0;
    while i < n { v.push(any_scalar()); i += 1; }
    v
}

fn body() -> SpannedExpr {
    Spanned::dummy(Expr::Null)
}

// ---- U-DEPTH (built-ins): all 69 built-ins x arg counts 0..=4 x every usize depth ----------------------
#[kani::proof]
#[kani::unwind(6)]
#[kani::stub(alloc::fmt::format, crate::verif_common::fmt_stub)]
#[kani::stub(std::hash::RandomState::new, crate::verif_common::rs_stub)]
#[kani::stub(std::time::Instant::now, crate::verif_common::instant_stub)]
#[kani::stub(crate::functions::BuiltInFunction::call, probe_builtin)]
#[kani::stub(crate::expressions::evaluate_ast, probe_eval)]
#[kani::stub(crate::functions::FunctionDef::get_name, name_stub)]
fn u_depth_builtin() {
    let b: BuiltInFunction = kani::any();
    let n: usize = kani::any();
    kani::assume(n <= 4);
    let depth: usize = kani::any();
    let f = FunctionDef::BuiltIn(b);
    let heap = Rc::new(RefCell::new(Heap::verif_empty()));
    let env = Rc::new(Environment::new());
    let r = f.call(Value::Null, args_vec(n), Rc::clone(&heap), Rc::clone(&env), depth, "");
    let calls = unsafe { BUILTIN_CALLS };
    let accepted = b.arity().can_accept(n);
    if !accepted {
        assert!(r.is_err() && calls == 0, "U-DEPTH#builtin:rejected-argument-count-is-an-error-before-the-builtin-runs");
    } else if depth > 1000 {
        assert!(r.is_err() && calls == 0, "U-DEPTH#builtin:depth-over-1000-is-an-error-before-the-builtin-runs");
    } else {
        assert!(calls == 1, "U-DEPTH#builtin:entered-exactly-once");
        unsafe {
            assert!(BUILTIN_DEPTH == depth + 1, "U-DEPTH#builtin:callee-receives-depth-plus-one");
            assert!(BUILTIN_NARGS == n, "U-DEPTH#builtin:all-arguments-passed");
        }
    }
    assert!(unsafe { EVAL_CALLS } == 0, "U-DEPTH#builtin:no-body-evaluation");
    kani::cover!(accepted && depth == 1000 && calls == 1, "reach-depth-1000-still-runs");
    kani::cover!(accepted && depth == 1001 && r.is_err(), "reach-depth-1001-fails");
    std::mem::forget(r);
    std::mem::forget(heap);
    std::mem::forget(env);
}

// ---- lambdas ------------------------------------------------------------------------------------------
// parameter kinds: 0 required, 1 optional, 2 rest; names are the fixed pool p0..p3
fn param(kind: u8, i: usize) -> LambdaArg {
    let name = match i { 0 => "p0", 1 => "p1", 2 => "p2", _ => "p3" }.to_string();
    match kind {
        0 => LambdaArg::Required(name),
        1 => LambdaArg::Optional(name),
        _ => LambdaArg::Rest(name),
    }
}

fn lambda(kinds: &[u8], np: usize) -> LambdaDef {
    let mut args = Vec::new();
    let mut i = 0;
    while i < np { args.push(param(kinds[i], i)); i += 1; }
    LambdaDef { name: None, args, body: body(), scope: CapturedScope::default(), source: Rc::from("") }
}

/// the documented shape: required*, optional*, at most one trailing rest
fn documented_shape(kinds: &[u8], np: usize) -> bool {
    let mut i = 0;
    let mut stage = 0u8;
    while i < np {
        let k = kinds[i];
        if k < stage { return false; }
        if k == 2 && i + 1 != np { return false; }
        stage = k;
        i += 1;
    }
    true
}

fn count(kinds: &[u8], np: usize, k: u8) -> usize {
    let mut i = 0; let mut c = 0;
    while i < np { if kinds[i] == k { c += 1; } i += 1; }
    c
}

// U-ARITY (lambda): get_arity / check_arity of every parameter list of the documented shape (<= 3 parameters)
#[kani::proof]
#[kani::unwind(6)]
#[kani::stub(alloc::fmt::format, crate::verif_common::fmt_stub)]
#[kani::stub(std::hash::RandomState::new, crate::verif_common::rs_stub)]
#[kani::stub(crate::functions::FunctionDef::get_name, name_stub)]
fn u_arity_lambda() {
    let np: usize = kani::any();
    kani::assume(np <= 3);
    let kinds: [u8; 3] = kani::any();
    kani::assume(kinds[0] < 3 && kinds[1] < 3 && kinds[2] < 3);
    kani::assume(documented_shape(&kinds, np));
    let def = lambda(&kinds, np);
    let (r, o, rest) = (count(&kinds, np, 0), count(&kinds, np, 1), count(&kinds, np, 2));
    let a = def.get_arity();
    if rest == 1 { assert!(matches!(a, FunctionArity::AtLeast(m) if m == r), "U-ARITY#lambda:rest-parameter-gives-at-least-required"); }
    else if o == 0 { assert!(matches!(a, FunctionArity::Exact(m) if m == r), "U-ARITY#lambda:only-required-gives-exact"); }
    else { assert!(matches!(a, FunctionArity::Between(lo, hi) if lo == r && hi == r + o), "U-ARITY#lambda:optionals-give-between"); }
    let n: usize = kani::any();
    let f = FunctionDef::Lambda(def);
    let chk = f.check_arity(n);
    let ok = chk.is_ok();
    std::mem::forget(chk);
    let want = if rest == 1 { n >= r } else { r <= n && n <= r + o };
    assert!(ok == want, "U-ARITY#lambda:any-other-argument-count-is-reported-as-an-error");
    kani::cover!(rest == 1 && o == 1 && r == 1, "reach-req-opt-rest");
    kani::cover!(np == 0, "reach-nullary");
    std::mem::forget(f);
}

// ---- U-BIND-SAFE (C01): every parameter list (ANY order of kinds, <= 3 parameters) x every argument
// count 0..=4: FunctionDef::call never panics (no index out of range in the binding loop), and a rejected
// count or a depth over 1000 fails before the body is evaluated.
#[kani::proof]
#[kani::unwind(7)]
#[kani::stub(alloc::fmt::format, crate::verif_common::fmt_stub)]
#[kani::stub(std::hash::RandomState::new, crate::verif_common::rs_stub)]
#[kani::stub(std::time::Instant::now, crate::verif_common::instant_stub)]
#[kani::stub(crate::functions::BuiltInFunction::call, probe_builtin)]
#[kani::stub(crate::expressions::evaluate_ast, probe_eval)]
#[kani::stub(crate::functions::FunctionDef::get_name, name_stub)]
fn u_bind_safe() {
    let np: usize = kani::any();
    kani::assume(np <= 3);
    let kinds: [u8; 3] = kani::any();
    kani::assume(kinds[0] < 3 && kinds[1] < 3 && kinds[2] < 3);
    let n: usize = kani::any();
    kani::assume(n <= 4);
    let depth: usize = kani::any();
    let def = lambda(&kinds, np);
    let accepted = def.get_arity().can_accept(n);
    let f = FunctionDef::Lambda(def);
    let heap = Rc::new(RefCell::new(Heap::verif_empty()));
    let env = Rc::new(Environment::new());
    let r = f.call(Value::Null, args_vec(n), Rc::clone(&heap), Rc::clone(&env), depth, "");
    let calls = unsafe { EVAL_CALLS };
    if !accepted || depth > 1000 {
        assert!(r.is_err() && calls == 0, "U-BIND-SAFE#rejected-count-or-depth-over-1000-fails-before-the-body");
    } else {
        assert!(calls <= 1, "U-BIND-SAFE#body-evaluated-at-most-once");
        if calls == 1 { assert!(unsafe { EVAL_DEPTH } == depth + 1, "U-DEPTH#lambda:body-receives-depth-plus-one"); }
        else { assert!(r.is_err(), "U-BIND-SAFE#binding-failure-is-an-error"); }
        if documented_shape(&kinds, np) { assert!(calls == 1, "U-BIND-SAFE#documented-shapes-always-reach-the-body"); }
    }
    assert!(unsafe { BUILTIN_CALLS } == 0, "U-BIND-SAFE#no-builtin-entered");
    kani::cover!(accepted && calls == 0 && depth < 10, "reach-binding-error");
    kani::cover!(calls == 1 && np == 3 && kinds[2] == 2, "reach-rest");
    std::mem::forget(r);
    std::mem::forget(f);
    std::mem::forget(heap);
    std::mem::forget(env);
    std::mem::forget(take_eval_env());
}

// ---- U-BIND (C04): positional binding and the call-time scope chain -----------------------------------
// Split into three small harnesses (a single one with every collision at once exceeded 30 minutes: each
// HashMap operation on String keys is expensive for CBMC).
fn hv(i: u32) -> Value { Value::Number(1000.0 + i as f64) }

macro_rules! call_harness {
    ($name:ident, $body:ident, $unwind:expr) => {
        #[kani::proof]
        #[kani::unwind($unwind)]
        #[kani::stub(alloc::fmt::format, crate::verif_common::fmt_stub)]
        #[kani::stub(std::hash::RandomState::new, crate::verif_common::rs_stub)]
        #[kani::stub(std::time::Instant::now, crate::verif_common::instant_stub)]
        #[kani::stub(crate::functions::BuiltInFunction::call, probe_builtin)]
        #[kani::stub(crate::expressions::evaluate_ast, probe_eval)]
        #[kani::stub(crate::functions::FunctionDef::get_name, name_stub)]
        fn $name() {
            $body();
        }
    };
}

fn check_rest(got: Option<Value>, heap: &Rc<RefCell<Heap>>, a: &[Value; 4], i: usize, n: usize) {
    match got {
        Some(Value::List(p)) => {
            let hb = heap.borrow();
            match hb.get(p.index()) {
                Some(crate::heap::HeapValue::List(items)) => {
                    let want_len = if n > i { n - i } else { 0 };
                    assert!(items.len() == want_len, "U-BIND#rest-parameter-collects-exactly-the-remaining-arguments");
                    let mut j = 0;
                    while j < items.len() { assert!(same_value(&items[j], &a[i + j]), "U-BIND#rest-parameter-keeps-argument-order"); j += 1; }
                }
                _ => assert!(false, "U-BIND#rest-parameter-is-a-list"),
            }
        }
        _ => assert!(false, "U-BIND#rest-parameter-is-a-list"),
    }
}

// (a) positional binding: every documented shape of <= 2 parameters x 0..=3 arguments, no other names in play
fn bind_positional() {
    let np: usize = kani::any();
    kani::assume(np <= 2);
    let kinds: [u8; 3] = [kani::any(), kani::any(), 0];
    kani::assume(kinds[0] < 3 && kinds[1] < 3);
    kani::assume(documented_shape(&kinds, np));
    let n: usize = kani::any();
    kani::assume(n <= 3);
    let def = lambda(&kinds, np);
    kani::assume(def.get_arity().can_accept(n));
    let env = Rc::new(Environment::new());
    let args = args_vec(n);
    let a: [Value; 4] = [
        if n > 0 { args[0] } else { Value::Null }, if n > 1 { args[1] } else { Value::Null },
        if n > 2 { args[2] } else { Value::Null }, Value::Null ];
    let f = FunctionDef::Lambda(def);
    let heap = Rc::new(RefCell::new(Heap::verif_empty()));
    let depth: usize = kani::any();
    kani::assume(depth <= 1000);
    let r = f.call(Value::Null, args, Rc::clone(&heap), Rc::clone(&env), depth, "");
    assert!(unsafe { EVAL_CALLS } == 1, "U-BIND#body-evaluated-exactly-once");
    assert!(unsafe { EVAL_DEPTH } == depth + 1, "U-BIND#body-receives-depth-plus-one");
    let e = take_eval_env().unwrap();
    let names = ["p0", "p1"];
    let mut i = 0;
    while i < np {
        let got = e.get(names[i]);
        match kinds[i] {
            0 => assert!(matches!(&got, Some(v) if same_value(v, &a[i])), "U-BIND#required-parameter-is-bound-to-the-argument-at-its-position"),
            1 => {
                let want = if i < n { a[i] } else { Value::Null };
                assert!(matches!(&got, Some(v) if same_value(v, &want)), "U-BIND#optional-parameter-is-the-argument-or-null");
            }
            _ => check_rest(got, &heap, &a, i, n),
        }
        i += 1;
    }
    assert!(env.get("p0").is_none() && env.get("p1").is_none(), "U-BIND#parameters-do-not-leak-into-the-caller");
    match (&r, &eval_ret()) {
        (Ok(v), Some(w)) => assert!(same_value(v, w), "U-BIND#result-is-the-body-result"),
        (Err(_), None) => {}
        _ => assert!(false, "U-BIND#success-and-failure-propagate"),
    }
    kani::cover!(np == 2 && kinds[1] == 2 && n == 3, "reach-rest-with-two");
    kani::cover!(np == 2 && kinds[1] == 1 && n == 1, "reach-optional-defaulted");
    std::mem::forget(r); std::mem::forget(f); std::mem::forget(heap); std::mem::forget(env); std::mem::forget(e);
}
call_harness!(u_bind_positional, bind_positional, 6);

// (b) scope chain: parameters > self name / inputs > captured scope > caller environment
fn bind_scope_chain() {
    let mut def = lambda(&[0, 0, 0], 1);            // (p0) => ...
    let mut caller = HashMap::new();
    caller.insert("p0".to_string(), hv(0));          // collides with the parameter
    caller.insert("c".to_string(), hv(1));           // collides with a captured name
    caller.insert("g".to_string(), hv(2));           // only the caller has it
    caller.insert("inputs".to_string(), hv(3));
    let env = Rc::new(Environment::with_bindings(caller));
    let mut cap = HashMap::new();
    cap.insert("c".to_string(), hv(5));
    def.scope = CapturedScope::new(cap);
    def.name = Some("me".to_string());
    let this_value = hv(6);
    let x = any_scalar();
    let f = FunctionDef::Lambda(def);
    let heap = Rc::new(RefCell::new(Heap::verif_empty()));
    let r = f.call(this_value, vec![x], Rc::clone(&heap), Rc::clone(&env), 0, "");
    assert!(unsafe { EVAL_CALLS } == 1, "U-BIND#body-evaluated-exactly-once");
    let e = take_eval_env().unwrap();
    assert!(matches!(e.get("p0"), Some(v) if same_value(&v, &x)), "U-BIND#parameter-shadows-the-caller-binding-of-the-same-name");
    assert!(matches!(e.get("c"), Some(v) if same_value(&v, &hv(5))), "U-BIND#captured-scope-shadows-the-caller-environment");
    assert!(matches!(e.get("g"), Some(v) if same_value(&v, &hv(2))), "U-BIND#caller-environment-is-the-outermost-scope");
    assert!(matches!(e.get("inputs"), Some(v) if same_value(&v, &hv(3))), "U-BIND#inputs-preserved");
    assert!(matches!(e.get("me"), Some(v) if same_value(&v, &this_value)), "U-BIND#self-name-bound-to-the-function-value");
    assert!(matches!(env.get("p0"), Some(v) if same_value(&v, &hv(0))), "U-BIND#caller-binding-unchanged-by-parameter-of-same-name");
    assert!(env.get("me").is_none(), "U-BIND#self-name-does-not-leak-into-the-caller");
    kani::cover!(r.is_ok(), "reach-ok");
    std::mem::forget(r); std::mem::forget(f); std::mem::forget(heap); std::mem::forget(env); std::mem::forget(e);
}
call_harness!(u_bind_scope_chain, bind_scope_chain, 8);

// (c) the function's own parameters shadow everything else, including its own name and captured values
fn bind_param_wins() {
    let mut def = lambda(&[0, 0, 0], 2);            // (p0, p1) => ...
    let mut cap = HashMap::new();
    cap.insert("p1".to_string(), hv(4));             // captured value named like the second parameter
    def.scope = CapturedScope::new(cap);
    def.name = Some("p0".to_string());               // function named like its first parameter
    let (x, y) = (any_scalar(), any_scalar());
    let env = Rc::new(Environment::new());
    let f = FunctionDef::Lambda(def);
    let heap = Rc::new(RefCell::new(Heap::verif_empty()));
    let r = f.call(hv(6), vec![x, y], Rc::clone(&heap), Rc::clone(&env), 0, "");
    assert!(unsafe { EVAL_CALLS } == 1, "U-BIND#body-evaluated-exactly-once");
    let e = take_eval_env().unwrap();
    assert!(matches!(e.get("p0"), Some(v) if same_value(&v, &x)), "U-BIND#parameter-shadows-the-function's-own-name");
    assert!(matches!(e.get("p1"), Some(v) if same_value(&v, &y)), "U-BIND#parameter-shadows-a-captured-value-of-the-same-name");
    kani::cover!(r.is_ok(), "reach-ok");
    std::mem::forget(r); std::mem::forget(f); std::mem::forget(heap); std::mem::forget(env); std::mem::forget(e);
}
call_harness!(u_bind_param_wins, bind_param_wins, 8);
