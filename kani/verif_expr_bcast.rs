// Injected (rule T1) as a child module of blots-core/src/expressions.rs under #[cfg(kani)].
// U-BCAST-LS / U-BCAST-LL: the broadcasting law for the list-scalar and list-list blocks of
// evaluate_binary_op_ast, sliced verbatim (rule T3) into verif_binop_list_scalar / verif_binop_list_list.
// The expected element results are obtained from the scalar arm block (verif_binop_scalar_arm, proved against
// the statement by U-BINOP-SCALAR): "returns the list of scalar results element by element, in order, and fails
// exactly when some element operation fails or the lengths differ". BOUNDED: lists of length 0..=2.
use super::*;
use crate::functions::FunctionDef;
use crate::verif_common::same_bits;

fn any_scalar() -> Value {
    let k: u8 = kani::any();
    match k % 3 {
        0 => Value::Number(kani::any()),
        1 => Value::Bool(kani::any()),
        _ => Value::Null,
    }
}

fn same_value(a: &Value, b: &Value) -> bool {
    match (a, b) {
        (Value::Number(x), Value::Number(y)) => same_bits(*x, *y),
        (Value::Bool(x), Value::Bool(y)) => x == y,
        (Value::Null, Value::Null) => true,
        _ => false,
    }
}

fn no_call(
    _this: &FunctionDef, _tv: Value, args: Vec<Value>, _h: Rc<RefCell<Heap>>, _b: Rc<Environment>, _d: usize, _s: &str,
) -> Result<Value, RuntimeError> {
    std::mem::forget(args);
    assert!(false, "U-BCAST#no-function-call-in-broadcast-operators");
    Err(RuntimeError::new(String::new()))
}

fn stringify_stub(_v: &Value, _h: &Heap) -> String { String::new() }

fn list_of(heap: &Rc<RefCell<Heap>>, n: usize, a: Value, b: Value) -> crate::heap::ListPointer {
    let mut v = Vec::new();
    if n > 0 { v.push(a); }
    if n > 1 { v.push(b); }
    match heap.borrow_mut().insert_list(v) {
        Value::List(p) => p,
        _ => unreachable!(),
    }
}

/// element result by the scalar arm block (forgetting error payloads)
fn scalar_result(op: BinaryOp, l: Value, r: Value, heap: &Rc<RefCell<Heap>>, env: &Rc<Environment>) -> Option<Value> {
    let src: Rc<str> = Rc::from("");
    match verif_binop_scalar_arm(op, l, r, Rc::clone(heap), Rc::clone(env), 0, src, Span::dummy()) {
        Ok(v) => Some(v),
        Err(e) => { std::mem::forget(e); None }
    }
}

fn check_result(r: &Result<Value, RuntimeError>, heap: &Rc<RefCell<Heap>>, n: usize, e0: Option<Value>, e1: Option<Value>) {
    let any_fail = (n > 0 && e0.is_none()) || (n > 1 && e1.is_none());
    if any_fail {
        assert!(r.is_err(), "U-BCAST#fails-when-some-element-operation-fails");
        return;
    }
    match r {
        Ok(Value::List(p)) => {
            let hb = heap.borrow();
            match hb.get(p.index()) {
                Some(HeapValue::List(items)) => {
                    assert!(items.len() == n, "U-BCAST#result-has-the-length-of-the-operand-list");
                    if n > 0 { assert!(same_value(&items[0], &e0.unwrap()), "U-BCAST#element-0-is-the-scalar-result"); }
                    if n > 1 { assert!(same_value(&items[1], &e1.unwrap()), "U-BCAST#element-1-is-the-scalar-result-in-order"); }
                }
                _ => assert!(false, "U-BCAST#result-is-a-list"),
            }
        }
        _ => assert!(false, "U-BCAST#succeeds-with-a-list-when-every-element-operation-succeeds"),
    }
}

// the list length is dispatched to CONSTANT lengths (symbolic-size allocations exhaust CBMC's memory)
fn bcast_list_scalar_contract(op: BinaryOp) {
    let n: u8 = kani::any();
    match n % 3 {
        0 => bcast_list_scalar_n(op, 0),
        1 => bcast_list_scalar_n(op, 1),
        _ => bcast_list_scalar_n(op, 2),
    }
}

fn bcast_list_list_contract(op: BinaryOp) {
    let k: u8 = kani::any();
    match k % 5 {
        0 => bcast_list_list_nm(op, 0, 0),
        1 => bcast_list_list_nm(op, 1, 1),
        2 => bcast_list_list_nm(op, 2, 2),
        3 => bcast_list_list_nm(op, 1, 2),
        _ => bcast_list_list_nm(op, 2, 0),
    }
}

fn bcast_list_scalar_n(op: BinaryOp, n: usize) {
    let heap = Rc::new(RefCell::new(Heap::verif_empty()));
    let env = Rc::new(Environment::new());
    let (a, b, s) = (any_scalar(), any_scalar(), any_scalar());
    let list = list_of(&heap, n, a, b);
    let list_first: bool = kani::any();
    let lhs = if list_first { Value::List(list) } else { s };
    let src: Rc<str> = Rc::from("");
    let r = verif_binop_list_scalar(op, lhs, list, s, Rc::clone(&heap), Rc::clone(&env), 0, src, Span::dummy());
    let e0 = if list_first { scalar_result(op, a, s, &heap, &env) } else { scalar_result(op, s, a, &heap, &env) };
    let e1 = if list_first { scalar_result(op, b, s, &heap, &env) } else { scalar_result(op, s, b, &heap, &env) };
    check_result(&r, &heap, n, e0, e1);
    kani::cover!(n == 2 && r.is_ok(), "reach-two-elements-ok");
    kani::cover!(n == 0, "reach-empty");
    std::mem::forget(r); std::mem::forget(heap); std::mem::forget(env);
}

fn bcast_list_list_nm(op: BinaryOp, n: usize, m: usize) {
    let heap = Rc::new(RefCell::new(Heap::verif_empty()));
    let env = Rc::new(Environment::new());
    let (a, b, c, d) = (any_scalar(), any_scalar(), any_scalar(), any_scalar());
    let l = list_of(&heap, n, a, b);
    let rr = list_of(&heap, m, c, d);
    let src: Rc<str> = Rc::from("");
    let r = verif_binop_list_list(op, l, rr, Rc::clone(&heap), Rc::clone(&env), 0, src, Span::dummy());
    if n != m {
        assert!(r.is_err(), "U-BCAST#lists-of-different-lengths-fail");
    } else {
        let e0 = scalar_result(op, a, c, &heap, &env);
        let e1 = scalar_result(op, b, d, &heap, &env);
        check_result(&r, &heap, n, e0, e1);
    }
    kani::cover!(n == 2 && m == 2 && r.is_ok(), "reach-two-elements-ok");
    kani::cover!(n != m, "reach-length-mismatch");
    std::mem::forget(r); std::mem::forget(heap); std::mem::forget(env);
}

macro_rules! bcast_harness {
    ($name:ident, $group:ident) => {
        #[kani::proof]
        #[kani::unwind(4)]
        #[kani::stub(alloc::fmt::format, crate::verif_common::fmt_stub)]
        #[kani::stub(std::backtrace::Backtrace::capture, crate::verif_common::bt_stub)]
        #[kani::stub(<crate::error::RuntimeError as std::convert::From<::anyhow::Error>>::from, crate::verif_common::from_anyhow_stub)]
        #[kani::stub(std::hash::RandomState::new, crate::verif_common::rs_stub)]
        #[kani::stub(crate::functions::FunctionDef::call, no_call)]
        #[kani::stub(crate::values::Value::stringify_internal, stringify_stub)]
        fn $name() {
            $group();
        }
    };
}

//@GEN bcast_harnesses
