// Injected (rule T1) as a child module of blots-core/src/expressions.rs under #[cfg(kani)].
// U-ORDERING: check_ordering turns "incomparable" into an error and otherwise tests membership.
use super::*;
use std::cmp::Ordering;

fn any_ordering() -> Ordering {
    let k: u8 = kani::any();
    match k % 3 { 0 => Ordering::Less, 1 => Ordering::Equal, _ => Ordering::Greater }
}

fn any_value_type() -> ValueType {
    let k: u8 = kani::any();
    match k % 9 {
        0 => ValueType::Number, 1 => ValueType::List, 2 => ValueType::Spread, 3 => ValueType::Bool,
        4 => ValueType::Lambda, 5 => ValueType::BuiltIn, 6 => ValueType::String, 7 => ValueType::Record,
        _ => ValueType::Null,
    }
}

#[kani::proof]
#[kani::unwind(5)]
#[kani::stub(alloc::fmt::format, crate::verif_common::fmt_stub)]
fn u_ordering_check() {
    let some: bool = kani::any();
    let o = any_ordering();
    let ordering = if some { Some(o) } else { None };
    // expected sets used by the operators: [Less], [Less, Equal], [Greater], [Greater, Equal], and any other
    let n: usize = kani::any();
    kani::assume(n <= 3);
    let e = [any_ordering(), any_ordering(), any_ordering()];
    let expected = &e[..n];
    let src: Rc<str> = Rc::from("");
    let r = check_ordering(ordering, expected, any_value_type(), any_value_type(), Span::dummy(), src);
    let mut member = false;
    let mut i = 0;
    while i < n { if e[i] == o { member = true; } i += 1; }
    match r {
        Ok(b) => {
            assert!(some, "U-ORDERING#incomparable-values-are-an-error-not-false");
            assert!(b == member, "U-ORDERING#result-is-membership-of-the-ordering-in-the-expected-set");
        }
        Err(err) => {
            assert!(!some, "U-ORDERING#comparable-values-never-error");
            std::mem::forget(err);
        }
    }
    kani::cover!(some && member, "reach-true");
    kani::cover!(!some, "reach-err");
}
