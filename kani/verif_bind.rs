// Injected (rule T1) as a child module of blots-core/src/functions.rs under #[cfg(kani)].
// U-BIND (C04, C01): FunctionDef::call on lambdas. The probe standing for evaluate_ast keeps NO Rc in statics: it reads
// the parameter names out of the scope it is handed, records the plain values, and forgets its Rc arguments.
use super::*;
use crate::ast::{Expr, Spanned, SpannedExpr};
use crate::values::CapturedScope;

fn hv(i: u32) -> Value { Value::Number(1000.0 + i as f64) }
fn is(v: Option<Value>, w: Value) -> bool {
    match (v, w) {
        (Some(Value::Number(x)), Value::Number(y)) => x.to_bits() == y.to_bits(),
        (Some(Value::Null), Value::Null) => true,
        _ => false,
    }
}

static mut CALLS: usize = 0;
static mut DEPTH: usize = 0;
static mut SEEN: [Option<Value>; 6] = [None, None, None, None, None, None];   // p0, p1, c, g, me, inputs

fn body_probe(
    _expr: &SpannedExpr, heap: Rc<RefCell<Heap>>, bindings: Rc<Environment>, call_depth: usize, source: Rc<str>,
) -> Result<Value, RuntimeError> {
    std::mem::forget(heap); std::mem::forget(source);
    unsafe {
        CALLS += 1;
        DEPTH = call_depth;
        SEEN = [bindings.get("p0"), bindings.get("p1"), bindings.get("c"), bindings.get("g"), bindings.get("me"), bindings.get("in")];
    }
    std::mem::forget(bindings);
    Ok(hv(42))
}

fn builtin_never(_this: &BuiltInFunction, args: Vec<Value>, heap: Rc<RefCell<Heap>>, bindings: Rc<Environment>, _d: usize, _s: &str) -> Result<Value, RuntimeError> {
    std::mem::forget(args); std::mem::forget(heap); std::mem::forget(bindings);
    assert!(false, "U-BIND#no-builtin-entered-for-a-lambda");
    Err(RuntimeError::new(String::new()))
}

fn name_stub(_f: &FunctionDef) -> String { String::new() }

fn param(kind: u8, name: &str) -> LambdaArg {
    match kind {
        0 => LambdaArg::Required(name.to_string()),
        1 => LambdaArg::Optional(name.to_string()),
        _ => LambdaArg::Rest(name.to_string()),
    }
}

fn lambda2(k0: u8, k1: u8) -> LambdaDef {
    LambdaDef {
        name: None,
        args: vec![param(k0, "p0"), param(k1, "p1")],
        body: Spanned::dummy(Expr::Null),
        scope: CapturedScope::default(),
        source: Rc::from(""),
    }
}

macro_rules! bind_harness {
    ($name:ident, $body:expr) => {
        #[kani::proof]
        #[kani::unwind(5)]
        #[kani::stub(alloc::fmt::format, crate::verif_common::fmt_stub)]
        #[kani::stub(std::time::Instant::now, crate::verif_common::instant_stub)]
        #[kani::stub(crate::functions::BuiltInFunction::call, builtin_never)]
        #[kani::stub(crate::expressions::evaluate_ast, body_probe)]
        #[kani::stub(crate::functions::FunctionDef::get_name, name_stub)]
        fn $name() {
            $body;
        }
    };
}

/// two parameters of CONSTANT kinds (k0, k1), n arguments (numbers 0.0, 1.0, 2.0)
fn bind_case(k0: u8, k1: u8, n: usize) {
    let def = lambda2(k0, k1);
    let accepted = def.get_arity().can_accept(n);
    let f = FunctionDef::Lambda(def);
    let heap = Rc::new(RefCell::new(Heap::verif_empty()));
    let env = Rc::new(Environment::new());
    let mut args = Vec::new();
    if n > 0 { args.push(Value::Number(0.0)); }
    if n > 1 { args.push(Value::Number(1.0)); }
    if n > 2 { args.push(Value::Number(2.0)); }
    let r = f.call(Value::Null, args, Rc::clone(&heap), Rc::clone(&env), 0, "");
    let calls = unsafe { CALLS };
    let documented = k0 <= k1 && k0 != 2;       // required*, optional*, at most one trailing rest
    if !accepted {
        assert!(r.is_err() && calls == 0, "U-BIND#rejected-argument-count-fails-before-the-body");
    } else if calls == 0 {
        // C01: a required parameter left without an argument is an error (never a panic); impossible for documented shapes
        assert!(r.is_err() && !documented, "U-BIND#documented-shapes-always-reach-the-body");
    } else {
        assert!(calls == 1 && unsafe { DEPTH } == 1, "U-BIND#body-evaluated-once-at-depth-plus-one");
        let seen = unsafe { SEEN };
        let kinds = [k0, k1];
        let mut i = 0;
        while i < 2 {
            match kinds[i] {
                0 => assert!(is(seen[i], Value::Number(i as f64)), "U-BIND#required-parameter-is-bound-to-the-argument-at-its-position"),
                1 => assert!(is(seen[i], if i < n { Value::Number(i as f64) } else { Value::Null }), "U-BIND#optional-parameter-is-the-argument-or-null"),
                _ => {
                    match seen[i] {
                        Some(Value::List(p)) => {
                            let hb = heap.borrow();
                            match hb.get(p.index()) {
                                Some(crate::heap::HeapValue::List(items)) => {
                                    let want = if n > i { n - i } else { 0 };
                                    assert!(items.len() == want, "U-BIND#rest-parameter-collects-exactly-the-remaining-arguments");
                                    let mut j = 0;
                                    while j < items.len() { assert!(is(Some(items[j]), Value::Number((i + j) as f64)), "U-BIND#rest-parameter-keeps-argument-order"); j += 1; }
                                }
                                _ => assert!(false, "U-BIND#rest-parameter-is-a-list"),
                            }
                        }
                        _ => assert!(false, "U-BIND#rest-parameter-is-a-list"),
                    }
                }
            }
            i += 1;
        }
        assert!(is(r.as_ref().ok().copied(), hv(42)), "U-BIND#result-is-the-body-result");
    }
    assert!(env.get("p0").is_none() && env.get("p1").is_none(), "U-BIND#parameters-do-not-leak-into-the-caller");
    kani::cover!(true, "reach-end-of-case");
    std::mem::forget(r); std::mem::forget(f); std::mem::forget(heap); std::mem::forget(env);
}

fn dispatch_counts(k0: u8, k1: u8) {
    let n: u8 = kani::any();
    match n { 0 => bind_case(k0, k1, 0), 1 => bind_case(k0, k1, 1), 2 => bind_case(k0, k1, 2), _ => bind_case(k0, k1, 3) }
}
// the documented shapes ...
bind_harness!(u_bind_req_req, dispatch_counts(0, 0));
bind_harness!(u_bind_req_opt, dispatch_counts(0, 1));
bind_harness!(u_bind_req_rest, dispatch_counts(0, 2));
bind_harness!(u_bind_opt_opt, dispatch_counts(1, 1));
bind_harness!(u_bind_opt_rest, dispatch_counts(1, 2));
// ... and the shapes the grammar also accepts (a required parameter after an optional / rest one): no panic (C01)
bind_harness!(u_bind_opt_req, dispatch_counts(1, 0));
bind_harness!(u_bind_rest_req, dispatch_counts(2, 0));

// scope chain at call time: parameters > self name / inputs > captured scope > caller environment
fn scope_chain() {
    let mut def = lambda2(0, 0);
    let mut cap = HashMap::new();
    cap.insert("c".to_string(), hv(5));     // captured c shadows the caller's c
    cap.insert("p1".to_string(), hv(4));    // captured value named like the second parameter: the parameter wins
    def.scope = CapturedScope::new(cap);
    def.name = Some("me".to_string());
    let mut caller = HashMap::new();
    caller.insert("p0".to_string(), hv(0));  // caller binding named like the first parameter: the parameter wins
    caller.insert("c".to_string(), hv(1));
    caller.insert("g".to_string(), hv(2));
    let env = Rc::new(Environment::with_bindings(caller));
    let f = FunctionDef::Lambda(def);
    let heap = Rc::new(RefCell::new(Heap::verif_empty()));
    let r = f.call(hv(6), vec![hv(10), hv(11)], Rc::clone(&heap), Rc::clone(&env), 0, "");
    assert!(unsafe { CALLS } == 1, "U-BIND#body-evaluated-exactly-once");
    let seen = unsafe { SEEN };
    assert!(is(seen[0], hv(10)), "U-BIND#parameter-shadows-the-caller-binding-of-the-same-name");
    assert!(is(seen[1], hv(11)), "U-BIND#parameter-shadows-a-captured-value-of-the-same-name");
    assert!(is(seen[2], hv(5)), "U-BIND#captured-scope-shadows-the-caller-environment");
    assert!(is(seen[3], hv(2)), "U-BIND#caller-environment-is-the-outermost-scope");
    assert!(is(seen[4], hv(6)), "U-BIND#self-name-bound-to-the-function-value");
    assert!(is(env.get("p0"), hv(0)) && env.get("me").is_none() && env.get("p1").is_none(), "U-BIND#caller-environment-unchanged-by-the-call");
    kani::cover!(r.is_ok(), "reach-ok");
    std::mem::forget(r); std::mem::forget(f); std::mem::forget(heap); std::mem::forget(env);
}
bind_harness!(u_bind_scope_chain, scope_chain());

// the function's own parameters shadow everything else - including the function's own name
fn own_name() {
    let mut def = lambda2(0, 0);
    def.name = Some("p0".to_string());
    let env = Rc::new(Environment::new());
    let f = FunctionDef::Lambda(def);
    let heap = Rc::new(RefCell::new(Heap::verif_empty()));
    let r = f.call(hv(6), vec![hv(10), hv(11)], Rc::clone(&heap), Rc::clone(&env), 0, "");
    let seen = unsafe { SEEN };
    assert!(is(seen[0], hv(10)), "U-BIND#parameter-shadows-the-function's-own-name");
    kani::cover!(r.is_ok(), "reach-ok");
    std::mem::forget(r); std::mem::forget(f); std::mem::forget(heap); std::mem::forget(env);
}
bind_harness!(u_bind_own_name, own_name());
