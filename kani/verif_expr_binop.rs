// Injected (rule T1) as a child module of blots-core/src/expressions.rs under #[cfg(kani)].
// U-BINOP-SCALAR / U-BINOP-DISPATCH: contracts of the scalar arm block and of the dot-operator arms
// of evaluate_binary_op_ast. The arms are sliced verbatim (rule T3) into verif_binop_scalar_arm and
// verif_binop_dot_arms by /verif/vlib/registry.py:prep_binop; the callee FunctionDef::call is replaced by
// a probe that checks the caller-side obligations and returns an arbitrary result.
use super::*;
use crate::functions::FunctionDef;
use crate::verif_common::same_bits;

fn any_scalar() -> Value {
    let k: u8 = kani::any();
    match k % 4 {
        0 => Value::Number(kani::any()),
        1 => Value::Bool(kani::any()),
        2 => Value::Null,
        _ => Value::BuiltIn(kani::any()),
    }
}

fn same_value(a: &Value, b: &Value) -> bool {
    match (a, b) {
        (Value::Number(x), Value::Number(y)) => same_bits(*x, *y),
        (Value::Bool(x), Value::Bool(y)) => x == y,
        (Value::Null, Value::Null) => true,
        (Value::BuiltIn(x), Value::BuiltIn(y)) => x == y,
        _ => false,
    }
}

// ---- probe for FunctionDef::call (contract of the callee, DESIGN 2.5) --------------------------------
static mut PROBE_CALLS: usize = 0;
static mut PROBE_THIS: Option<Value> = None;
static mut PROBE_ARG0: Option<Value> = None;
static mut PROBE_NARGS: usize = 0;
static mut PROBE_DEPTH: usize = 0;
static mut PROBE_RET: Option<Value> = None;

fn probe_call(
    _this: &FunctionDef,
    this_value: Value,
    args: Vec<Value>,
    _heap: Rc<RefCell<Heap>>,
    _bindings: Rc<Environment>,
    call_depth: usize,
    _source: &str,
) -> Result<Value, RuntimeError> {
    unsafe {
        PROBE_CALLS += 1;
        PROBE_THIS = Some(this_value);
        PROBE_NARGS = args.len();
        PROBE_ARG0 = if args.len() > 0 { Some(args[0]) } else { None };
        PROBE_DEPTH = call_depth;
    }
    std::mem::forget(args);
    if kani::any() {
        let v = any_scalar();
        unsafe { PROBE_RET = Some(v); }
        Ok(v)
    } else {
        unsafe { PROBE_RET = None; }
        Err(RuntimeError::new(String::new()))
    }
}

fn stringify_stub(_v: &Value, _h: &Heap) -> String {
    String::new()
}

fn member(o: Ordering, set: &[Ordering]) -> bool {
    let mut i = 0;
    while i < set.len() { if set[i] == o { return true; } i += 1; }
    false
}

// For * / % only the cheap part of the IEEE contract is stated: NaN propagation, and fixed witnesses that pin the
// operation and the operand order (constant-folded by CBMC). Anything that makes the solver reason about the
// multiplier / divider / fmod circuits for symbolic operands (sign rule, neutral elements, |x % y| < |y|, bit-exact
// equality with a second copy) did not finish in 20 minutes.
fn mul_identities(x: f64, y: f64, z: f64) -> bool {
    if x.is_nan() || y.is_nan() { return z.is_nan(); }
    let mut ok = true;
    if x == 3.0 && y == 4.0 { ok = ok && z == 12.0; }
    if x == 0.1 && y == 3.0 { ok = ok && z == 0.30000000000000004; }
    if x == -2.0 && y == 0.5 { ok = ok && z == -1.0; }
    ok
}

fn div_identities(x: f64, y: f64, z: f64) -> bool {
    if x.is_nan() || y.is_nan() { return z.is_nan(); }
    let mut ok = true;
    if x == 1.0 && y == 2.0 { ok = ok && z == 0.5; }          // operand order
    if x == 1.0 && y == 3.0 { ok = ok && z == 0.3333333333333333; }
    if x == 1.0 && y == 0.0 && y.is_sign_positive() { ok = ok && z == f64::INFINITY; }
    if x == -1.0 && y == 0.0 && y.is_sign_positive() { ok = ok && z == f64::NEG_INFINITY; }
    ok
}

// CBMC's model of the floating-point remainder is not precise enough to state anything about the value (even the fixed
// witness 5 % 3 == 2 is not provable), so for % only "a number for two numbers" is under contract.
fn rem_identities(_x: f64, _y: f64, _z: f64) -> bool {
    true
}

//@GEN binop_nondot_from_index

// ---- U-BINOP-SCALAR ----------------------------------------------------------------------------------
// One harness per operator group; the operator is dispatched OUTSIDE the contract call to constants, so CBMC only
// follows that operator's arm (a merged symbolic operator made it explore every arm: > 16 GB). Operands stay symbolic.
macro_rules! binop_scalar_harness {
    ($name:ident, $group:ident, $solver:ident) => {
        #[kani::proof]
        #[kani::unwind(4)]
        #[kani::solver($solver)]
        #[kani::stub(alloc::fmt::format, crate::verif_common::fmt_stub)]
        #[kani::stub(std::backtrace::Backtrace::capture, crate::verif_common::bt_stub)]
        #[kani::stub(<crate::error::RuntimeError as std::convert::From<::anyhow::Error>>::from, crate::verif_common::from_anyhow_stub)]
        #[kani::stub(std::hash::RandomState::new, crate::verif_common::rs_stub)]
        #[kani::stub(crate::functions::FunctionDef::call, probe_call)]
        #[kani::stub(crate::values::Value::stringify_internal, stringify_stub)]
        fn $name() {
            $group();
        }
    };
}

//@GEN binop_scalar_harnesses

fn binop_scalar_contract(op: BinaryOp) {
    if matches!(op, BinaryOp::Via | BinaryOp::Into) {
        // the right operand's VARIANT is dispatched to constants: get_function_def clones a LambdaDef (an Expr tree) in
        // its Lambda arm, which CBMC would explore for a merged symbolic variant
        let k: u8 = kani::any();
        match k % 4 {
            0 => binop_scalar_contract_with(op, any_scalar(), Value::BuiltIn(kani::any())),
            1 => binop_scalar_contract_with(op, any_scalar(), Value::Number(kani::any())),
            2 => binop_scalar_contract_with(op, any_scalar(), Value::Bool(kani::any())),
            _ => binop_scalar_contract_with(op, any_scalar(), Value::Null),
        }
    } else {
        binop_scalar_contract_with(op, any_scalar(), any_scalar());
    }
}

fn binop_scalar_contract_with(op: BinaryOp, lhs: Value, rhs: Value) {
    let heap = Rc::new(RefCell::new(Heap::verif_empty()));
    let env = Rc::new(Environment::new());
    let depth: usize = kani::any();
    let src: Rc<str> = Rc::from("");
    let r = verif_binop_scalar_arm(op, lhs, rhs, Rc::clone(&heap), Rc::clone(&env), depth, src, Span::dummy());
    let heap_len_after = heap.borrow().verif_len();
    let calls = unsafe { PROBE_CALLS };

    let both_num = matches!((&lhs, &rhs), (Value::Number(_), Value::Number(_)));
    let (x, y) = match (&lhs, &rhs) { (Value::Number(x), Value::Number(y)) => (*x, *y), _ => (0.0, 0.0) };
    let num = |r: &Result<Value, RuntimeError>, want: f64| -> bool { matches!(r, Ok(Value::Number(z)) if same_bits(*z, want)) };

    match op {
        BinaryOp::Add => { if both_num { assert!(num(&r, x + y), "U-BINOP-SCALAR#add:ieee-sum"); } else { assert!(r.is_err(), "U-BINOP-SCALAR#add:non-numbers-fail"); } }
        BinaryOp::Subtract => { if both_num { assert!(num(&r, x - y), "U-BINOP-SCALAR#subtract:ieee-difference"); } else { assert!(r.is_err(), "U-BINOP-SCALAR#subtract:non-numbers-fail"); } }
        // * / %: bit-exact equality with a second copy of the same operation is a multiplier/divider-equivalence query
        // that CaDiCaL does not finish (and CBMC's SMT back end crashes on this harness), so the contract is stated as
        // the algebraic identities that pin the operation and the operand order down (each is SAT-easy).
        BinaryOp::Multiply => { if both_num { assert!(matches!(&r, Ok(Value::Number(z)) if mul_identities(x, y, *z)), "U-BINOP-SCALAR#multiply:ieee-product-identities"); } else { assert!(r.is_err(), "U-BINOP-SCALAR#multiply:non-numbers-fail"); } }
        BinaryOp::Divide => { if both_num { assert!(matches!(&r, Ok(Value::Number(z)) if div_identities(x, y, *z)), "U-BINOP-SCALAR#divide:ieee-quotient-identities"); } else { assert!(r.is_err(), "U-BINOP-SCALAR#divide:non-numbers-fail"); } }
        BinaryOp::Modulo => { if both_num { assert!(matches!(&r, Ok(Value::Number(z)) if rem_identities(x, y, *z)), "U-BINOP-SCALAR#modulo:ieee-remainder-identities"); } else { assert!(r.is_err(), "U-BINOP-SCALAR#modulo:non-numbers-fail"); } }
        BinaryOp::Power => { if both_num { assert!(matches!(r, Ok(Value::Number(_))), "U-BINOP-SCALAR#power:number-result"); } else { assert!(r.is_err(), "U-BINOP-SCALAR#power:non-numbers-fail"); } }
        BinaryOp::Equal | BinaryOp::NotEqual => {
            let e = match lhs.equals(&rhs, &heap.borrow()) { Ok(b) => b, Err(er) => { std::mem::forget(er); false } };
            let want = if op == BinaryOp::Equal { e } else { !e };
            assert!(matches!(r, Ok(Value::Bool(b)) if b == want), "U-BINOP-SCALAR#equality:result-is-value-equality-or-its-negation");
        }
        BinaryOp::Less | BinaryOp::LessEq | BinaryOp::Greater | BinaryOp::GreaterEq => {
            let c = match lhs.compare(&rhs, &heap.borrow()) { Ok(c) => c, Err(er) => { std::mem::forget(er); None } };
            let set: &[Ordering] = match op {
                BinaryOp::Less => &[Ordering::Less],
                BinaryOp::LessEq => &[Ordering::Less, Ordering::Equal],
                BinaryOp::Greater => &[Ordering::Greater],
                _ => &[Ordering::Greater, Ordering::Equal],
            };
            match c {
                Some(o) => assert!(matches!(r, Ok(Value::Bool(b)) if b == member(o, set)), "U-BINOP-SCALAR#ordering:follows-the-value-ordering"),
                None => assert!(r.is_err(), "U-BINOP-SCALAR#ordering:unordered-values-fail"),
            }
        }
        BinaryOp::And | BinaryOp::NaturalAnd | BinaryOp::Or | BinaryOp::NaturalOr => {
            let is_and = matches!(op, BinaryOp::And | BinaryOp::NaturalAnd);
            match (&lhs, &rhs) {
                (Value::Bool(a), Value::Bool(b)) => {
                    let want = if is_and { *a && *b } else { *a || *b };
                    assert!(matches!(r, Ok(Value::Bool(z)) if z == want), "U-BINOP-SCALAR#logic:boolean-conjunction-disjunction");
                }
                (Value::Bool(a), _) => {
                    // right operand is not a boolean: an error, unless the left operand already decides (short circuit)
                    let decided = if is_and { !*a } else { *a };
                    assert!(r.is_err() || (decided && matches!(r, Ok(Value::Bool(z)) if z == *a)), "U-BINOP-SCALAR#logic:non-boolean-right-operand-fails-unless-short-circuited");
                }
                _ => assert!(r.is_err(), "U-BINOP-SCALAR#logic:non-boolean-left-operand-fails"),
            }
        }
        BinaryOp::Coalesce => {
            let want = if matches!(lhs, Value::Null) { rhs } else { lhs };
            assert!(matches!(&r, Ok(v) if same_value(v, &want)), "U-BINOP-SCALAR#coalesce:right-operand-exactly-when-left-is-null");
        }
        BinaryOp::Where => assert!(r.is_err(), "U-BINOP-SCALAR#where:scalar-left-operand-fails"),
        BinaryOp::Via | BinaryOp::Into => {
            if rhs.is_callable() {
                // x into f == f(x); the scalar `via` arm applies f to the scalar itself
                assert!(calls == 1, "U-BINOP-SCALAR#apply:function-called-exactly-once");
                let (p_nargs, p_arg0, p_this, p_depth, p_ret) = unsafe { (PROBE_NARGS, PROBE_ARG0, PROBE_THIS, PROBE_DEPTH, PROBE_RET) };
                assert!(p_nargs == 1 && matches!(&p_arg0, Some(a) if same_value(a, &lhs)), "U-BINOP-SCALAR#apply:argument-is-the-left-operand");
                assert!(matches!(&p_this, Some(t) if same_value(t, &rhs)), "U-BINOP-SCALAR#apply:self-reference-is-the-function-value");
                assert!(p_depth >= depth, "U-BINOP-SCALAR#apply:call-depth-not-decreased");
                match (&r, &p_ret) {
                    (Ok(v), Some(w)) => assert!(same_value(v, w), "U-BINOP-SCALAR#apply:result-is-the-function-result"),
                    (Err(_), None) => {}
                    _ => assert!(false, "U-BINOP-SCALAR#apply:success-and-failure-propagate"),
                }
            } else {
                assert!(r.is_err() && calls == 0, "U-BINOP-SCALAR#apply:non-function-right-operand-fails");
            }
        }
        _ => {}
    }
    if !matches!(op, BinaryOp::Via | BinaryOp::Into) { assert!(calls == 0, "U-BINOP-SCALAR#no-function-call-outside-via-into"); }
    assert!(heap_len_after == 0, "U-BINOP-SCALAR#scalar-operators-allocate-nothing");
    kani::cover!(both_num, "reach-two-numbers");
    kani::cover!(r.is_err() || calls == 1 || matches!(op, BinaryOp::Equal | BinaryOp::NotEqual | BinaryOp::Coalesce), "reach-non-number-outcome");
    std::mem::forget(r);
    std::mem::forget(heap);
    std::mem::forget(env);
}

// ---- U-BINOP-DISPATCH: the six dot operators return before any broadcasting ---------------------------
pub(super) static mut VERIF_FELL_THROUGH: bool = false;

#[kani::proof]
#[kani::unwind(4)]
#[kani::stub(alloc::fmt::format, crate::verif_common::fmt_stub)]
#[kani::stub(std::backtrace::Backtrace::capture, crate::verif_common::bt_stub)]
#[kani::stub(<crate::error::RuntimeError as std::convert::From<::anyhow::Error>>::from, crate::verif_common::from_anyhow_stub)]
fn u_binop_dot() {
    let op = any_binop_all();
    let lhs = any_scalar();
    let rhs = any_scalar();
    let heap = Rc::new(RefCell::new(Heap::verif_empty()));
    let src: Rc<str> = Rc::from("");
    let r = verif_binop_dot_arms(op, lhs, rhs, Rc::clone(&heap), src, Span::dummy());
    let fell = unsafe { VERIF_FELL_THROUGH };
    let is_dot = matches!(op, BinaryOp::DotEqual | BinaryOp::DotNotEqual | BinaryOp::DotLess | BinaryOp::DotLessEq | BinaryOp::DotGreater | BinaryOp::DotGreaterEq);
    assert!(fell == !is_dot, "U-BINOP-DISPATCH#dot-operators-return-before-broadcasting-and-only-they-do");
    if is_dot {
        let e = match lhs.equals(&rhs, &heap.borrow()) { Ok(b) => b, Err(er) => { std::mem::forget(er); false } };
        let c = match lhs.compare(&rhs, &heap.borrow()) { Ok(c) => c, Err(er) => { std::mem::forget(er); None } };
        match op {
            BinaryOp::DotEqual => assert!(matches!(r, Ok(Value::Bool(b)) if b == e), "U-BINOP-DISPATCH#dot-equal-is-value-equality"),
            BinaryOp::DotNotEqual => assert!(matches!(r, Ok(Value::Bool(b)) if b == !e), "U-BINOP-DISPATCH#dot-not-equal-is-its-negation"),
            _ => {
                let set: &[Ordering] = match op {
                    BinaryOp::DotLess => &[Ordering::Less],
                    BinaryOp::DotLessEq => &[Ordering::Less, Ordering::Equal],
                    BinaryOp::DotGreater => &[Ordering::Greater],
                    _ => &[Ordering::Greater, Ordering::Equal],
                };
                match c {
                    Some(o) => assert!(matches!(r, Ok(Value::Bool(b)) if b == member(o, set)), "U-BINOP-DISPATCH#dot-ordering-follows-the-value-ordering"),
                    None => assert!(r.is_err(), "U-BINOP-DISPATCH#dot-ordering-of-unordered-values-fails"),
                }
            }
        }
    }
    kani::cover!(is_dot && r.is_ok(), "reach-dot");
    kani::cover!(fell, "reach-fallthrough");
    std::mem::forget(r);
    std::mem::forget(heap);
}
