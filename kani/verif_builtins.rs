// Injected (rule T1) as a child module of blots-core/src/functions.rs under #[cfg(kani)].
// Contracts on individual arms of BuiltInFunction::call, reached through the REAL function with a constant
// built-in (so CBMC follows exactly that arm) and fully symbolic scalar arguments.
use super::*;
use std::cmp::Ordering;

fn any_scalar() -> Value {
    let k: u8 = kani::any();
    match k % 4 {
        0 => Value::Number(kani::any()),
        1 => Value::Bool(kani::any()),
        2 => Value::Null,
        _ => Value::BuiltIn(kani::any()),
    }
}

fn no_call(
    _this: &FunctionDef, _tv: Value, args: Vec<Value>, _h: Rc<RefCell<Heap>>, _b: Rc<Environment>, _d: usize, _s: &str,
) -> Result<Value, RuntimeError> {
    std::mem::forget(args);
    assert!(false, "U-BUILTIN#no-callback-expected-in-this-arm");
    Err(RuntimeError::new(String::new()))
}

fn call_builtin(b: BuiltInFunction, args: Vec<Value>, heap: &Rc<RefCell<Heap>>, env: &Rc<Environment>) -> Result<Value, RuntimeError> {
    b.call(args, Rc::clone(heap), Rc::clone(env), 1, "")
}

macro_rules! builtin_harness {
    ($name:ident, $body:ident, $unwind:expr) => {
        #[kani::proof]
        #[kani::unwind($unwind)]
        #[kani::stub(alloc::fmt::format, crate::verif_common::fmt_stub)]
        #[kani::stub(std::backtrace::Backtrace::capture, crate::verif_common::bt_stub)]
        #[kani::stub(<crate::error::RuntimeError as std::convert::From<::anyhow::Error>>::from, crate::verif_common::from_anyhow_stub)]
        #[kani::stub(std::hash::RandomState::new, crate::verif_common::rs_stub)]
        #[kani::stub(crate::functions::FunctionDef::call, no_call)]
        fn $name() {
            $body();
        }
    };
}

// ---- U-UCMP (C12): ugt/ult/ugte/ulte agree with the ordering whenever it exists and are false otherwise ---
fn ucmp_contract(b: BuiltInFunction, set: &[Ordering]) {
    let heap = Rc::new(RefCell::new(Heap::verif_empty()));
    let env = Rc::new(Environment::new());
    let (x, y) = (any_scalar(), any_scalar());
    let c = match x.compare(&y, &heap.borrow()) { Ok(c) => c, Err(e) => { std::mem::forget(e); None } };
    let r = call_builtin(b, vec![x, y], &heap, &env);
    let want = match c {
        Some(o) => { let mut m = false; let mut i = 0; while i < set.len() { if set[i] == o { m = true; } i += 1; } m }
        None => false,
    };
    assert!(matches!(r, Ok(Value::Bool(z)) if z == want), "U-UCMP#agrees-with-the-ordering-when-comparable-and-is-false-otherwise");
    kani::cover!(c.is_some() && want, "reach-true");
    kani::cover!(c.is_none(), "reach-unordered");
    kani::cover!(matches!((&x, &y), (Value::Bool(_), Value::Bool(_))) && want, "reach-booleans");
    std::mem::forget(r); std::mem::forget(heap); std::mem::forget(env);
}
fn ucmp_ugt() { ucmp_contract(BuiltInFunction::Ugt, &[Ordering::Greater]); }
fn ucmp_ult() { ucmp_contract(BuiltInFunction::Ult, &[Ordering::Less]); }
fn ucmp_ugte() { ucmp_contract(BuiltInFunction::Ugte, &[Ordering::Greater, Ordering::Equal]); }
fn ucmp_ulte() { ucmp_contract(BuiltInFunction::Ulte, &[Ordering::Less, Ordering::Equal]); }
builtin_harness!(u_ucmp_ugt, ucmp_ugt, 4);
builtin_harness!(u_ucmp_ult, ucmp_ult, 4);
builtin_harness!(u_ucmp_ugte, ucmp_ugte, 4);
builtin_harness!(u_ucmp_ulte, ucmp_ulte, 4);

// ---- U-GUARD (C01): numeric guard arithmetic never panics, for EVERY f64 argument ----------------------
// Loops that follow a guard are cut at the unwind bound (run with --no-unwinding-checks): the obligations up
// to the loop are complete over all f64; loop bodies are bounded.
fn guard_range() {
    let heap = Rc::new(RefCell::new(Heap::verif_empty()));
    let env = Rc::new(Environment::new());
    let two: bool = kani::any();
    let (a, b): (f64, f64) = (kani::any(), kani::any());
    let args = if two { vec![Value::Number(a), Value::Number(b)] } else { vec![Value::Number(a)] };
    let r = call_builtin(BuiltInFunction::Range, args, &heap, &env);
    let (s, e) = if two { (a, b) } else { (0.0, a) };
    if !(s <= e) || !s.is_finite() || !e.is_finite() { assert!(r.is_err(), "U-GUARD#range:unordered-or-non-finite-bounds-are-an-error"); }
    // (margin of 2: both bounds are truncated towards zero before the length is computed)
    // and only within the i64 range: beyond it both casts saturate and the call returns an empty list, which is wrong
    // for C14 (not claimed) but is a result, not a crash)
    if s.abs() < 9.0e18 && e.abs() < 9.0e18 && e - s > 4294967298.0 { assert!(r.is_err(), "U-GUARD#range:over-long-lists-are-an-error"); }
    kani::cover!(r.is_ok(), "reach-ok");
    kani::cover!(s.is_finite() && e.is_finite() && e - s > 1e20 && r.is_err(), "reach-huge-span");
    std::mem::forget(r); std::mem::forget(heap); std::mem::forget(env);
}
builtin_harness!(u_guard_range, guard_range, 3);

fn guard_round() {
    let heap = Rc::new(RefCell::new(Heap::verif_empty()));
    let env = Rc::new(Environment::new());
    let two: bool = kani::any();
    let (a, b): (f64, f64) = (kani::any(), kani::any());
    let args = if two { vec![Value::Number(a), Value::Number(b)] } else { vec![Value::Number(a)] };
    let r = call_builtin(BuiltInFunction::Round, args, &heap, &env);
    assert!(matches!(r, Ok(Value::Number(_))), "U-GUARD#round:any-numbers-give-a-number");
    kani::cover!(two, "reach-places");
    std::mem::forget(r); std::mem::forget(heap); std::mem::forget(env);
}
builtin_harness!(u_guard_round, guard_round, 3);

fn guard_unary(b: BuiltInFunction, numeric: bool) {
    let heap = Rc::new(RefCell::new(Heap::verif_empty()));
    let env = Rc::new(Environment::new());
    let x = any_scalar();
    let r = call_builtin(b, vec![x], &heap, &env);
    if numeric {
        assert!(r.is_ok() == matches!(x, Value::Number(_)), "U-GUARD#math:number-argument-required-and-sufficient");
    }
    kani::cover!(r.is_ok(), "reach-ok");
    std::mem::forget(r); std::mem::forget(heap); std::mem::forget(env);
}

// the built-in is dispatched OUTSIDE the call (a merged symbolic built-in would make CBMC explore all 69 arms)
fn guard_unary_math() {
    let k: u8 = kani::any();
    match k % 5 {
        0 => guard_unary(BuiltInFunction::Abs, true),
        1 => guard_unary(BuiltInFunction::Floor, true),
        2 => guard_unary(BuiltInFunction::Ceil, true),
        3 => guard_unary(BuiltInFunction::Trunc, true),
        _ => guard_unary(BuiltInFunction::ToBool, false),
    }
}
builtin_harness!(u_guard_unary_math, guard_unary_math, 3);

// ---- U-RANDOM (C02): random(seed) is a function of its argument only ---------------------------------------
fn random_pure() {
    let heap = Rc::new(RefCell::new(Heap::verif_empty()));
    let env = Rc::new(Environment::new());
    let seed: f64 = kani::any();
    let r1 = call_builtin(BuiltInFunction::Random, vec![Value::Number(seed)], &heap, &env);
    let r2 = call_builtin(BuiltInFunction::Random, vec![Value::Number(seed)], &heap, &env);
    match (&r1, &r2) {
        (Ok(Value::Number(a)), Ok(Value::Number(b))) => {
            assert!(a.to_bits() == b.to_bits(), "U-RANDOM#same-seed-gives-the-same-number");
            assert!(*a >= 0.0 && *a < 1.0, "U-RANDOM#result-lies-in-the-unit-interval");
        }
        _ => assert!(false, "U-RANDOM#a-number-seed-always-yields-a-number"),
    }
    assert!(heap.borrow().verif_len() == 0, "U-RANDOM#no-heap-effect");
    kani::cover!(r1.is_ok(), "reach-ok");
    std::mem::forget(r1); std::mem::forget(r2); std::mem::forget(heap); std::mem::forget(env);
}

#[kani::proof]
#[kani::unwind(3)]
#[kani::stub(alloc::fmt::format, crate::verif_common::fmt_stub)]
#[kani::stub(std::backtrace::Backtrace::capture, crate::verif_common::bt_stub)]
#[kani::stub(<crate::error::RuntimeError as std::convert::From<::anyhow::Error>>::from, crate::verif_common::from_anyhow_stub)]
#[kani::stub(std::hash::RandomState::new, crate::verif_common::rs_stub)]
#[kani::stub(crate::functions::FunctionDef::call, no_call)]
fn u_random_pure() {
    random_pure();
}
