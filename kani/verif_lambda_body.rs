// Injected (rule T1) as a child module of blots-core/src/ast_to_source.rs under #[cfg(kani)].
// U-LAMBDA-BODY (C05 / C07): a lambda body ends at the first `via`, `into` or `where` that is not inside parentheses
// (grammar: lambda_infix_usage admits only `and` / `or` as word operators), so a body whose top-level operator is one of
// these must be printed inside parentheses. There is no decision function for this in the printer, so the obligation
// is stated on the emitted text of the REAL expr_to_source / expr_to_source_with_scope (format! NOT stubbed) for the
// smallest such lambdas: `() => x OP f`.
use super::*;
use crate::ast::*;

fn ident(s: &str) -> Box<SpannedExpr> { Box::new(Spanned::dummy(Expr::Identifier(s.to_string()))) }

/// after "=> " the body text must start with '(' and end with ')'
fn body_is_wrapped(text: &str) -> bool {
    let b = text.as_bytes();
    let mut i = 0;
    while i + 3 <= b.len() {
        if b[i] == b'=' && b[i + 1] == b'>' && b[i + 2] == b' ' {
            return i + 3 < b.len() && b[i + 3] == b'(' && b[b.len() - 1] == b')';
        }
        i += 1;
    }
    false
}

fn lambda_with_body_op(op: BinaryOp) -> SpannedExpr {
    Spanned::dummy(Expr::Lambda {
        args: Vec::new(),
        body: Box::new(Spanned::dummy(Expr::BinaryOp { op, left: ident("x"), right: ident("f") })),
    })
}

fn check(op: BinaryOp, with_scope: bool) {
    let e = lambda_with_body_op(op);
    let text = if with_scope {
        let scope = indexmap::IndexMap::new();
        let t = expr_to_source_with_scope(&e, &scope);
        std::mem::forget(scope);
        t
    } else {
        expr_to_source(&e)
    };
    match (op, with_scope) {
        (BinaryOp::Via, false) => assert!(body_is_wrapped(&text), "U-LAMBDA-BODY#printer:via-body-must-be-parenthesised"),
        (BinaryOp::Into, false) => assert!(body_is_wrapped(&text), "U-LAMBDA-BODY#printer:into-body-must-be-parenthesised"),
        (BinaryOp::Where, false) => assert!(body_is_wrapped(&text), "U-LAMBDA-BODY#printer:where-body-must-be-parenthesised"),
        (BinaryOp::Via, true) => assert!(body_is_wrapped(&text), "U-LAMBDA-BODY#function-output:via-body-must-be-parenthesised"),
        (BinaryOp::Into, true) => assert!(body_is_wrapped(&text), "U-LAMBDA-BODY#function-output:into-body-must-be-parenthesised"),
        (BinaryOp::Where, true) => assert!(body_is_wrapped(&text), "U-LAMBDA-BODY#function-output:where-body-must-be-parenthesised"),
        _ => {}
    }
    std::mem::forget(text);
    std::mem::forget(e);
}

#[kani::proof]
#[kani::unwind(24)]
fn u_lambda_body_wrapped() {
    let k: u8 = kani::any();
    match k % 6 {
        0 => check(BinaryOp::Via, false),
        1 => check(BinaryOp::Into, false),
        2 => check(BinaryOp::Where, false),
        3 => check(BinaryOp::Via, true),
        4 => check(BinaryOp::Into, true),
        _ => check(BinaryOp::Where, true),
    }
    kani::cover!(k % 6 == 5, "reach-last");
}
