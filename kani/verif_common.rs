// Injected (rule T1) as `#[cfg(kani)] pub mod verif_common` of blots-core/src/lib.rs.
// Abstraction stubs (DESIGN.md 2.4). Each is an ASSUMPTION about code that is not verified and is
// listed in every evidence file that uses it.
#![allow(dead_code)]

/// alloc::fmt::format -> empty string: error-message text is irrelevant; format! does not panic.
pub fn fmt_stub(_args: std::fmt::Arguments<'_>) -> String {
    String::new()
}

/// Backtrace::capture -> disabled backtrace.
pub fn bt_stub() -> std::backtrace::Backtrace {
    std::backtrace::Backtrace::disabled()
}

/// <RuntimeError as From<anyhow::Error>>::from -> forget the anyhow error (its drop glue goes through
/// vtables CBMC cannot resolve cheaply) and return an empty RuntimeError.
pub fn from_anyhow_stub(e: anyhow::Error) -> crate::error::RuntimeError {
    std::mem::forget(e);
    crate::error::RuntimeError::new(String::new())
}

/// hash::RandomState::new -> fixed keys: HashMap results do not depend on the seed.
pub fn rs_stub() -> std::hash::RandomState {
    unsafe { std::mem::zeroed() }
}

/// time::Instant::now -> a fixed instant (only used for profiling statistics).
pub fn instant_stub() -> std::time::Instant {
    unsafe { std::mem::zeroed() }
}

/// Forget a Result<Value, RuntimeError> / anyhow result without running drop glue.
pub fn forget<T>(x: T) {
    std::mem::forget(x)
}

/// Bit-level equality of numbers (NaN == NaN, +0 != -0): "the IEEE-754 double result".
pub fn same_bits(a: f64, b: f64) -> bool {
    a.to_bits() == b.to_bits() || (a.is_nan() && b.is_nan())
}
