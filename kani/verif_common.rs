// Injected (rule T1) as `#[cfg(kani)] pub mod verif_common` of blots-core/src/lib.rs.
// Abstraction stubs (DESIGN.md 2.4). Each is an ASSUMPTION about code that is not verified and is
// listed in every evidence file that uses it.
#![allow(dead_code)]

/// alloc::fmt::format -> empty string: error-message text is irrelevant; format! does not panic.
pub fn fmt_stub(_args: std::fmt::Arguments<'_>) -> String {
    String::new()
}

/// Backtrace::capture -> disabled backtrace.
pub fn bt_stub() -> std::backtrace::Backtrace {
    std::backtrace::Backtrace::disabled()
}

/// <RuntimeError as From<anyhow::Error>>::from -> forget the anyhow error (its drop glue goes through
/// vtables CBMC cannot resolve cheaply) and return an empty RuntimeError.
pub fn from_anyhow_stub(e: anyhow::Error) -> crate::error::RuntimeError {
    std::mem::forget(e);
    crate::error::RuntimeError::new(String::new())
}

/// hash::RandomState::new -> fixed keys: HashMap results do not depend on the seed.
pub fn rs_stub() -> std::hash::RandomState {
    unsafe { std::mem::zeroed() }
}

/// time::Instant::now -> a fixed instant (only used for profiling statistics).
pub fn instant_stub() -> std::time::Instant {
    unsafe { std::mem::zeroed() }
}

/// Forget a Result<Value, RuntimeError> / anyhow result without running drop glue.
pub fn forget<T>(x: T) {
    std::mem::forget(x)
}

/// Bit-level equality of numbers (NaN == NaN, +0 != -0): "the IEEE-754 double result".
pub fn same_bits(a: f64, b: f64) -> bool {
    a.to_bits() == b.to_bits() || (a.is_nan() && b.is_nan())
}

// ---- T5 dependency substitution: std::collections::HashMap<String, Value> -> association list ---------------
// hashbrown's SIMD group probing and SipHash make every HashMap operation cost CBMC minutes (measured: three
// insertions did not finish in 30 min). Under cfg(kani) the `use std::collections::HashMap` lines of environment.rs,
// functions.rs, values.rs and expressions.rs are redirected to this type, which implements the same finite-map
// interface. ASSUMPTION: std's HashMap satisfies the finite-map contract that VecMap implements directly
// (insert replaces or adds, get returns the last inserted value for an equal key, iteration visits each entry once).
pub struct VecMap<K, V> {
    items: Vec<(K, V)>,
}

impl<K: Eq, V> VecMap<K, V> {
    pub fn new() -> Self {
        VecMap { items: Vec::new() }
    }

    pub fn insert(&mut self, k: K, v: V) -> Option<V> {
        let mut i = 0;
        while i < self.items.len() {
            if self.items[i].0 == k {
                return Some(std::mem::replace(&mut self.items[i].1, v));
            }
            i += 1;
        }
        self.items.push((k, v));
        None
    }

    pub fn get<Q: ?Sized + Eq>(&self, q: &Q) -> Option<&V>
    where
        K: std::borrow::Borrow<Q>,
    {
        let mut i = 0;
        while i < self.items.len() {
            if self.items[i].0.borrow() == q {
                return Some(&self.items[i].1);
            }
            i += 1;
        }
        None
    }

    pub fn contains_key<Q: ?Sized + Eq>(&self, q: &Q) -> bool
    where
        K: std::borrow::Borrow<Q>,
    {
        self.get(q).is_some()
    }

    pub fn len(&self) -> usize {
        self.items.len()
    }

    pub fn is_empty(&self) -> bool {
        self.items.is_empty()
    }

    pub fn iter(&self) -> impl Iterator<Item = (&K, &V)> {
        self.items.iter().map(|(k, v)| (k, v))
    }

    pub fn into_keys(self) -> impl Iterator<Item = K> {
        self.items.into_iter().map(|(k, _)| k)
    }
}

impl<K: Eq, V> Default for VecMap<K, V> {
    fn default() -> Self {
        Self::new()
    }
}

impl<K: Clone, V: Clone> Clone for VecMap<K, V> {
    fn clone(&self) -> Self {
        VecMap { items: self.items.clone() }
    }
}

impl<K: std::fmt::Debug, V: std::fmt::Debug> std::fmt::Debug for VecMap<K, V> {
    fn fmt(&self, f: &mut std::fmt::Formatter<'_>) -> std::fmt::Result {
        f.write_str("VecMap")
    }
}

impl<K: Eq, V: PartialEq> PartialEq for VecMap<K, V> {
    fn eq(&self, other: &Self) -> bool {
        if self.len() != other.len() {
            return false;
        }
        let mut i = 0;
        while i < self.items.len() {
            match other.get(&self.items[i].0) {
                Some(v) if *v == self.items[i].1 => {}
                _ => return false,
            }
            i += 1;
        }
        true
    }
}

impl<K, V> IntoIterator for VecMap<K, V> {
    type Item = (K, V);
    type IntoIter = std::vec::IntoIter<(K, V)>;
    fn into_iter(self) -> Self::IntoIter {
        self.items.into_iter()
    }
}

impl<K: Eq, V> FromIterator<(K, V)> for VecMap<K, V> {
    fn from_iter<I: IntoIterator<Item = (K, V)>>(iter: I) -> Self {
        let mut m = VecMap::new();
        for (k, v) in iter {
            m.insert(k, v);
        }
        m
    }
}
