// Injected (rule T1) as a child module of blots-core/src/units.rs under #[cfg(kani)].
// U-CONVERT: contracts of Unit::convert_to_base / convert_from_base and of units::convert, with
// resolve_unit replaced by its contract ("returns some unit of the table, or an error").
use super::*;
use crate::verif_common::same_bits;

fn any_category() -> UnitCategory {
    let k: u8 = kani::any();
    match k % 19 {
        0 => UnitCategory::Angle, 1 => UnitCategory::Area, 2 => UnitCategory::ConcentrationMass,
        3 => UnitCategory::Duration, 4 => UnitCategory::ElectricCharge, 5 => UnitCategory::ElectricCurrent,
        6 => UnitCategory::ElectricPotentialDifference, 7 => UnitCategory::ElectricResistance,
        8 => UnitCategory::Energy, 9 => UnitCategory::Frequency, 10 => UnitCategory::FuelEfficiency,
        11 => UnitCategory::InformationStorage, 12 => UnitCategory::Length, 13 => UnitCategory::Mass,
        14 => UnitCategory::Power, 15 => UnitCategory::Pressure, 16 => UnitCategory::Speed,
        17 => UnitCategory::Temperature, _ => UnitCategory::Volume,
    }
}

/// an arbitrary unit: any category, linear or reciprocal with any coefficient, or one of the temperature pairs
fn any_unit() -> Unit {
    let k: u8 = kani::any();
    let c: f64 = kani::any();
    match k % 5 {
        0 => Unit::new_linear(any_category(), &[], c),
        1 => Unit::new_reciprocal(any_category(), &[], c),
        2 => Unit::new_temperature(&[], kelvin_to_kelvin, kelvin_to_kelvin),
        3 => Unit::new_temperature(&[], celsius_to_kelvin, kelvin_to_celsius),
        _ => Unit::new_temperature(&[], fahrenheit_to_kelvin, kelvin_to_fahrenheit),
    }
}

/// specification of the two directions (C17 anchors: linear, reciprocal and temperature conversions)
fn spec_to_base(u: &Unit, v: f64) -> f64 {
    match &u.conversion {
        ConversionType::Linear { coefficient } => v * coefficient,
        ConversionType::Reciprocal { coefficient } => if v == 0.0 { f64::INFINITY } else { coefficient / v },
        ConversionType::Temperature { to_kelvin, .. } => to_kelvin(v),
    }
}

fn spec_from_base(u: &Unit, b: f64) -> f64 {
    match &u.conversion {
        ConversionType::Linear { coefficient } => b / coefficient,
        ConversionType::Reciprocal { coefficient } => if b == 0.0 { f64::INFINITY } else { coefficient / b },
        ConversionType::Temperature { from_kelvin, .. } => from_kelvin(b),
    }
}

#[kani::proof]
#[kani::solver(cvc5)]
fn u_convert_formulas() {
    let v: f64 = kani::any();
    let c: f64 = kani::any();
    let lin = Unit::new_linear(any_category(), &[], c);
    assert!(same_bits(lin.convert_to_base(v), v * c), "U-CONVERT#linear:to-base-multiplies-by-the-coefficient");
    assert!(same_bits(lin.convert_from_base(v), v / c), "U-CONVERT#linear:from-base-divides-by-the-coefficient");
    let rec = Unit::new_reciprocal(any_category(), &[], c);
    let want = if v == 0.0 { f64::INFINITY } else { c / v };
    assert!(same_bits(rec.convert_to_base(v), want), "U-CONVERT#reciprocal:to-base-is-coefficient-over-value");
    assert!(same_bits(rec.convert_from_base(v), want), "U-CONVERT#reciprocal:from-base-is-coefficient-over-value");
    // temperature pairs: kelvin is the base; celsius and fahrenheit by the usual affine maps
    assert!(same_bits(kelvin_to_kelvin(v), v), "U-CONVERT#temperature:kelvin-is-the-base-unit");
    assert!(same_bits(celsius_to_kelvin(v), v + 273.15), "U-CONVERT#temperature:celsius-to-kelvin");
    assert!(same_bits(kelvin_to_celsius(v), v - 273.15), "U-CONVERT#temperature:kelvin-to-celsius");
    assert!(same_bits(fahrenheit_to_kelvin(v), (v - 32.0) * 5.0 / 9.0 + 273.15), "U-CONVERT#temperature:fahrenheit-to-kelvin");
    assert!(same_bits(kelvin_to_fahrenheit(v), (v - 273.15) * 9.0 / 5.0 + 32.0), "U-CONVERT#temperature:kelvin-to-fahrenheit");
    // a unit converted to itself with coefficient one is the identity, exactly
    let one = Unit::new_linear(any_category(), &[], 1.0);
    assert!(same_bits(one.convert_from_base(one.convert_to_base(v)), v), "U-CONVERT#base-unit-to-itself-is-exactly-the-identity");
    kani::cover!(v == 0.0, "reach-zero");
}

// ---- convert(): resolve_unit and the two direction functions replaced by their contracts ----------------
// (the direction functions are proved against the formulas by u_convert_formulas; here convert() is verified
// modularly: whatever to-base returns is what from-base receives, and its result is convert's result)
static mut RESOLVED: [Option<Unit>; 2] = [None, None];
static mut RESOLVE_CALLS: usize = 0;
static mut TO_BASE_ARG: f64 = 0.0;
static mut TO_BASE_UNIT: f64 = 0.0;
static mut TO_BASE_RET: f64 = 0.0;
static mut FROM_BASE_ARG: f64 = 0.0;
static mut FROM_BASE_UNIT: f64 = 0.0;
static mut FROM_BASE_RET: f64 = 0.0;
static mut DIR_CALLS: [usize; 2] = [0, 0];

fn coeff(u: &Unit) -> f64 {
    match &u.conversion {
        ConversionType::Linear { coefficient } => *coefficient,
        ConversionType::Reciprocal { coefficient } => *coefficient,
        _ => 0.0,
    }
}

fn resolve_contract(_identifier: &str) -> Result<Unit> {
    let i = unsafe { RESOLVE_CALLS };
    unsafe { RESOLVE_CALLS = i + 1; }
    if i < 2 {
        let u = unsafe { (*std::ptr::addr_of!(RESOLVED))[i].clone() };
        match u {
            Some(u) => Ok(u),
            None => Err(anyhow!("unknown or ambiguous unit")),
        }
    } else {
        Err(anyhow!("unexpected third resolution"))
    }
}

fn to_base_contract(u: &Unit, v: f64) -> f64 {
    let r: f64 = kani::any();
    unsafe { TO_BASE_ARG = v; TO_BASE_UNIT = coeff(u); TO_BASE_RET = r; DIR_CALLS[0] += 1; }
    r
}

fn from_base_contract(u: &Unit, b: f64) -> f64 {
    let r: f64 = kani::any();
    unsafe { FROM_BASE_ARG = b; FROM_BASE_UNIT = coeff(u); FROM_BASE_RET = r; DIR_CALLS[1] += 1; }
    r
}

/// an arbitrary unit identified by its coefficient
fn any_tagged_unit() -> Unit {
    let c: f64 = kani::any();
    kani::assume(c == c);
    if kani::any() { Unit::new_linear(any_category(), &[], c) } else { Unit::new_reciprocal(any_category(), &[], c) }
}

#[kani::proof]
#[kani::unwind(3)]
#[kani::stub(alloc::fmt::format, crate::verif_common::fmt_stub)]
#[kani::stub(std::backtrace::Backtrace::capture, crate::verif_common::bt_stub)]
#[kani::stub(crate::units::resolve_unit, resolve_contract)]
#[kani::stub(crate::units::Unit::convert_to_base, to_base_contract)]
#[kani::stub(crate::units::Unit::convert_from_base, from_base_contract)]
fn u_convert_convert() {
    let v: f64 = kani::any();
    let from = if kani::any() { Some(any_tagged_unit()) } else { None };
    let to = if kani::any() { Some(any_tagged_unit()) } else { None };
    unsafe { RESOLVED = [from.clone(), to.clone()]; }
    let r = convert(v, "a", "b");
    let calls = unsafe { DIR_CALLS };
    match (&from, &to) {
        (Some(f), Some(t)) => {
            if f.category != t.category {
                assert!(r.is_err() && calls[0] == 0 && calls[1] == 0, "U-CONVERT#convert:units-of-different-categories-are-never-convertible");
            } else {
                unsafe {
                    assert!(calls[0] == 1 && calls[1] == 1, "U-CONVERT#convert:one-step-to-the-base-unit-and-one-step-from-it");
                    assert!(same_bits(TO_BASE_ARG, v) && same_bits(TO_BASE_UNIT, coeff(f)), "U-CONVERT#convert:source-unit-converts-the-value-to-base");
                    assert!(same_bits(FROM_BASE_ARG, TO_BASE_RET) && same_bits(FROM_BASE_UNIT, coeff(t)), "U-CONVERT#convert:target-unit-converts-that-base-value");
                    assert!(matches!(&r, Ok(x) if same_bits(*x, FROM_BASE_RET)), "U-CONVERT#convert:result-is-the-target-unit's-value");
                }
            }
        }
        _ => assert!(r.is_err(), "U-CONVERT#convert:unknown-or-ambiguous-identifier-is-an-error-not-a-guess"),
    }
    kani::cover!(r.is_ok(), "reach-ok");
    kani::cover!(from.is_some() && to.is_some() && r.is_err(), "reach-category-mismatch");
    match r { Ok(_) => {}, Err(e) => std::mem::forget(e) }
}
