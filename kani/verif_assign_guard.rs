// Injected (rule T1) as a child module of blots-core/src/expressions.rs under #[cfg(kani)].
// U-ASSIGN-GUARD (C03): the Expr::Assignment arm of evaluate_ast (sliced verbatim, rule T3, shared with the unregistered
// U-ASSIGN) in an EMPTY scope: keywords, built-in function names, `inputs` and `constants` can never be bound - the arm
// fails WITHOUT evaluating the right-hand side and binds nothing - while an ordinary fresh name evaluates the right-hand
// side exactly once and is bound to its value. (The richer scenarios with pre-bound names did not finish in 15 minutes.)
use super::*;

static mut EVAL_CALLS: usize = 0;

fn probe_eval(
    _expr: &SpannedExpr, heap: Rc<RefCell<Heap>>, bindings: Rc<Environment>, _call_depth: usize, source: Rc<str>,
) -> Result<Value, RuntimeError> {
    std::mem::forget(heap);
    std::mem::forget(source);
    std::mem::forget(bindings);
    unsafe { EVAL_CALLS += 1; }
    Ok(Value::Number(7.0))
}

fn guard_case(name: &'static str, reserved: bool) {
    let ident = name.to_string();
    let env = Rc::new(Environment::new());
    let expr = Spanned::dummy(Expr::Null);
    let value = Box::new(Spanned::dummy(Expr::Null));
    let heap = Rc::new(RefCell::new(Heap::verif_empty()));
    let src: Rc<str> = Rc::from("");
    let r = verif_assignment_arm(&expr, &ident, &value, Rc::clone(&heap), Rc::clone(&env), 0, src);
    let calls = unsafe { EVAL_CALLS };
    if reserved {
        assert!(r.is_err(), "U-ASSIGN-GUARD#keywords-builtin-names-inputs-and-constants-can-never-be-bound");
        assert!(calls == 0, "U-ASSIGN-GUARD#refused-assignment-does-not-evaluate-its-right-hand-side");
        assert!(env.get(name).is_none(), "U-ASSIGN-GUARD#refused-assignment-binds-nothing");
    } else {
        assert!(calls == 1, "U-ASSIGN-GUARD#ordinary-name:right-hand-side-evaluated-exactly-once");
        assert!(matches!(r, Ok(Value::Number(x)) if x == 7.0), "U-ASSIGN-GUARD#ordinary-name:value-of-the-assignment-is-the-value-bound");
        assert!(matches!(env.get(name), Some(Value::Number(x)) if x == 7.0), "U-ASSIGN-GUARD#ordinary-name:bound-to-the-evaluated-value");
    }
    kani::cover!(true, "reach-end-of-case");
    std::mem::forget(r); std::mem::forget(heap); std::mem::forget(env); std::mem::forget(ident); std::mem::forget(value);
}

macro_rules! guard_harness {
    ($name:ident, [$(($k:expr, $s:expr, $res:expr)),+]) => {
        #[kani::proof]
        #[kani::unwind(16)]
        #[kani::stub(alloc::fmt::format, crate::verif_common::fmt_stub)]
        #[kani::stub(crate::expressions::evaluate_ast, probe_eval)]
        fn $name() {
            let i: u8 = kani::any();
            match i {
                $($k => guard_case($s, $res),)+
                _ => {}
            }
        }
    };
}
guard_harness!(u_assign_guard_a, [(0, "inputs", true), (1, "constants", true), (2, "sqrt", true), (3, "x", false)]);
guard_harness!(u_assign_guard_b, [(0, "if", true), (1, "then", true), (2, "else", true), (3, "map", true)]);
guard_harness!(u_assign_guard_c, [(0, "true", true), (1, "false", true), (2, "null", true), (3, "and", true), (4, "or", true)]);

// a name that is already visible (bound in the current scope, or in an enclosing one) can never be rebound, and the
// refused statement leaves the existing binding untouched
fn rebind_case(outer: bool) {
    let root = Rc::new(Environment::new());
    root.insert("y".to_string(), Value::Number(1.0));
    let env = if outer { Rc::new(Environment::extend(Rc::clone(&root))) } else { Rc::clone(&root) };
    let ident = "y".to_string();
    let expr = Spanned::dummy(Expr::Null);
    let value = Box::new(Spanned::dummy(Expr::Null));
    let heap = Rc::new(RefCell::new(Heap::verif_empty()));
    let src: Rc<str> = Rc::from("");
    let r = verif_assignment_arm(&expr, &ident, &value, Rc::clone(&heap), Rc::clone(&env), 0, src);
    assert!(r.is_err(), "U-ASSIGN-GUARD#visible-name-cannot-be-rebound");
    assert!(unsafe { EVAL_CALLS } == 0, "U-ASSIGN-GUARD#refused-rebinding-does-not-evaluate-its-right-hand-side");
    assert!(matches!(env.get("y"), Some(Value::Number(x)) if x == 1.0), "U-ASSIGN-GUARD#existing-binding-unchanged-by-a-refused-rebinding");
    assert!(matches!(root.get("y"), Some(Value::Number(x)) if x == 1.0), "U-ASSIGN-GUARD#outer-binding-unchanged-by-a-refused-rebinding");
    kani::cover!(true, "reach-end-of-case");
    std::mem::forget(r); std::mem::forget(heap); std::mem::forget(env); std::mem::forget(root); std::mem::forget(ident); std::mem::forget(value);
}

#[kani::proof]
#[kani::unwind(16)]
#[kani::stub(alloc::fmt::format, crate::verif_common::fmt_stub)]
#[kani::stub(crate::expressions::evaluate_ast, probe_eval)]
fn u_assign_guard_rebind() {
    if kani::any() { rebind_case(false) } else { rebind_case(true) }
}

// a failing right-hand side binds nothing
fn failing_eval(
    _expr: &SpannedExpr, heap: Rc<RefCell<Heap>>, bindings: Rc<Environment>, _call_depth: usize, source: Rc<str>,
) -> Result<Value, RuntimeError> {
    std::mem::forget(heap);
    std::mem::forget(source);
    std::mem::forget(bindings);
    unsafe { EVAL_CALLS += 1; }
    Err(RuntimeError::new(String::new()))
}

#[kani::proof]
#[kani::unwind(16)]
#[kani::stub(alloc::fmt::format, crate::verif_common::fmt_stub)]
#[kani::stub(crate::expressions::evaluate_ast, failing_eval)]
fn u_assign_guard_failing_rhs() {
    let ident = "x".to_string();
    let env = Rc::new(Environment::new());
    let expr = Spanned::dummy(Expr::Null);
    let value = Box::new(Spanned::dummy(Expr::Null));
    let heap = Rc::new(RefCell::new(Heap::verif_empty()));
    let src: Rc<str> = Rc::from("");
    let r = verif_assignment_arm(&expr, &ident, &value, Rc::clone(&heap), Rc::clone(&env), 0, src);
    assert!(r.is_err() && unsafe { EVAL_CALLS } == 1, "U-ASSIGN-GUARD#failure-of-the-right-hand-side-fails-the-statement");
    assert!(env.get("x").is_none(), "U-ASSIGN-GUARD#failed-statement-binds-nothing");
    kani::cover!(true, "reach-end");
    std::mem::forget(r); std::mem::forget(heap); std::mem::forget(env); std::mem::forget(ident); std::mem::forget(value);
}
