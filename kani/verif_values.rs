// Injected (rule T1) as a child module of blots-core/src/values.rs under #[cfg(kani)].
// U-CMP-SCALAR / U-CMP-TAGS: contracts of Value::equals and Value::compare (C12).
use super::*;
use crate::functions::BuiltInFunction;
use crate::heap::{Heap, IterablePointer, LambdaPointer, ListPointer, RecordPointer, StringPointer};
use std::cmp::Ordering;

/// any scalar data value: a number other than NaN, a boolean, or null
fn any_scalar() -> Value {
    let k: u8 = kani::any();
    match k % 3 {
        0 => {
            let x: f64 = kani::any();
            kani::assume(!x.is_nan());
            Value::Number(x)
        }
        1 => Value::Bool(kani::any()),
        _ => Value::Null,
    }
}

/// any value at all, with arbitrary (possibly dangling) pointers; returns its type tag 0..8
fn any_value_with_tag() -> (Value, u8) {
    let k: u8 = kani::any();
    kani::assume(k < 11);
    let i: usize = kani::any();
    match k {
        0 => (Value::Number(kani::any()), 0),
        1 => (Value::Bool(kani::any()), 1),
        2 => (Value::Null, 2),
        3 => (Value::List(ListPointer::new(i)), 3),
        4 => (Value::String(StringPointer::new(i)), 4),
        5 => (Value::Record(RecordPointer::new(i)), 5),
        6 => (Value::Lambda(LambdaPointer::new(i)), 6),
        7 => (Value::Spread(IterablePointer::List(ListPointer::new(i))), 7),
        8 => (Value::Spread(IterablePointer::String(StringPointer::new(i))), 7),
        9 => (Value::Spread(IterablePointer::Record(RecordPointer::new(i))), 7),
        _ => (Value::BuiltIn(kani::any()), 8),
    }
}

fn eq(a: &Value, b: &Value, h: &Heap) -> Option<bool> {
    match a.equals(b, h) {
        Ok(x) => Some(x),
        Err(e) => { std::mem::forget(e); None }
    }
}

fn cmp(a: &Value, b: &Value, h: &Heap) -> Option<Option<Ordering>> {
    match a.compare(b, h) {
        Ok(x) => Some(x),
        Err(e) => { std::mem::forget(e); None }
    }
}

fn same_scalar_type(a: &Value, b: &Value) -> bool {
    matches!((a, b), (Value::Number(_), Value::Number(_)) | (Value::Bool(_), Value::Bool(_)) | (Value::Null, Value::Null))
}

fn orderable(a: &Value, b: &Value) -> bool {
    matches!((a, b), (Value::Number(_), Value::Number(_)) | (Value::Bool(_), Value::Bool(_)))
}

// ---- U-CMP-SCALAR: all triples of scalars -----------------------------------------------------------
#[kani::proof]
#[kani::stub(alloc::fmt::format, crate::verif_common::fmt_stub)]
#[kani::stub(std::backtrace::Backtrace::capture, crate::verif_common::bt_stub)]
fn u_cmp_scalar_laws() {
    let h = Heap::verif_empty();
    let a = any_scalar();
    let b = any_scalar();
    let c = any_scalar();

    let (eab, eba, ebc, eac) = (eq(&a, &b, &h), eq(&b, &a, &h), eq(&b, &c, &h), eq(&a, &c, &h));
    assert!(eab.is_some() && eba.is_some() && ebc.is_some() && eac.is_some(), "U-CMP-SCALAR#equals:never-fails-on-scalars");
    assert!(eq(&a, &a, &h) == Some(true), "U-CMP-SCALAR#equals:reflexive");
    assert!(eab == eba, "U-CMP-SCALAR#equals:symmetric");
    if eab == Some(true) && ebc == Some(true) { assert!(eac == Some(true), "U-CMP-SCALAR#equals:transitive"); }
    if !same_scalar_type(&a, &b) { assert!(eab == Some(false), "U-CMP-SCALAR#equals:different-types-never-equal"); }

    let (cab, cba, cbc, cac) = (cmp(&a, &b, &h), cmp(&b, &a, &h), cmp(&b, &c, &h), cmp(&a, &c, &h));
    assert!(cab.is_some() && cba.is_some() && cbc.is_some() && cac.is_some(), "U-CMP-SCALAR#compare:never-fails-on-scalars");
    let (cab, cba, cbc, cac) = (cab.unwrap(), cba.unwrap(), cbc.unwrap(), cac.unwrap());
    // comparable exactly when both are numbers or both are booleans
    assert!(cab.is_some() == orderable(&a, &b), "U-CMP-SCALAR#compare:ordered-iff-both-numbers-or-both-booleans");
    // antisymmetry: compare(b,a) is the reverse of compare(a,b)
    assert!(cba == cab.map(|o| o.reverse()), "U-CMP-SCALAR#compare:antisymmetric");
    // exactly one of <, ==, > on comparable values, and Equal agrees with equals
    if let Some(o) = cab {
        assert!((o == Ordering::Equal) == (eab == Some(true)), "U-CMP-SCALAR#compare:equal-iff-equals");
    }
    // transitivity of < and of <=
    if cab == Some(Ordering::Less) && cbc == Some(Ordering::Less) { assert!(cac == Some(Ordering::Less), "U-CMP-SCALAR#compare:less-transitive"); }
    if cab == Some(Ordering::Equal) && cbc == Some(Ordering::Less) { assert!(cac == Some(Ordering::Less), "U-CMP-SCALAR#compare:equal-then-less"); }
    if cab == Some(Ordering::Less) && cbc == Some(Ordering::Equal) { assert!(cac == Some(Ordering::Less), "U-CMP-SCALAR#compare:less-then-equal"); }
    // the order is the documented one: IEEE order on numbers, false < true
    if let (Value::Number(x), Value::Number(y)) = (&a, &b) {
        assert!(cab == Some(if x < y { Ordering::Less } else if x > y { Ordering::Greater } else { Ordering::Equal }), "U-CMP-SCALAR#compare:numbers-by-value");
        assert!(eab == Some(x == y), "U-CMP-SCALAR#equals:numbers-by-value");
    }
    if let (Value::Bool(x), Value::Bool(y)) = (&a, &b) {
        assert!(cab == Some(if !x & y { Ordering::Less } else if x & !y { Ordering::Greater } else { Ordering::Equal }), "U-CMP-SCALAR#compare:false-before-true");
    }
    kani::cover!(cab == Some(Ordering::Less) && cbc == Some(Ordering::Less), "reach-chain");
    kani::cover!(cab.is_none(), "reach-incomparable");
    std::mem::forget(h);
}

// ---- U-CMP-TAGS: values of different types, arbitrary pointers, EMPTY heap ----------------------------
// equals = false and compare = None without touching the heap (any dereference would hit
// "Dangling pointer!" on the empty heap and fail the proof).
#[kani::proof]
#[kani::stub(alloc::fmt::format, crate::verif_common::fmt_stub)]
#[kani::stub(std::backtrace::Backtrace::capture, crate::verif_common::bt_stub)]
fn u_cmp_tags() {
    let h = Heap::verif_empty();
    let (a, ta) = any_value_with_tag();
    let (b, tb) = any_value_with_tag();
    kani::assume(ta != tb);
    assert!(eq(&a, &b, &h) == Some(false), "U-CMP-TAGS#equals:values-of-different-types-are-never-equal");
    assert!(cmp(&a, &b, &h) == Some(None), "U-CMP-TAGS#compare:values-of-different-types-are-unordered");
    kani::cover!(ta == 3 && tb == 4, "reach-list-vs-string");
    std::mem::forget(h);
}

// same-tag values of the unordered types are unordered too (null, record, function, built-in, spread)
#[kani::proof]
#[kani::stub(alloc::fmt::format, crate::verif_common::fmt_stub)]
#[kani::stub(std::backtrace::Backtrace::capture, crate::verif_common::bt_stub)]
fn u_cmp_unordered_types() {
    let h = Heap::verif_empty();
    let (a, ta) = any_value_with_tag();
    let (b, tb) = any_value_with_tag();
    kani::assume(ta == tb && (ta == 2 || ta >= 5));
    assert!(cmp(&a, &b, &h) == Some(None), "U-CMP-TAGS#compare:null-record-function-builtin-spread-are-unordered");
    kani::cover!(ta == 5, "reach-records");
    std::mem::forget(h);
}
