// Injected (rule T1) as a child module of blots-core/src/expressions.rs under #[cfg(kani)].
// U-ASSIGN (T3 slice of the Expr::Assignment arm of evaluate_ast), U-DOASSIGN (evaluate_do_block_expr),
// U-ENV (Environment scope chain). The right-hand side is evaluated by a probe standing for evaluate_ast.
use super::*;

fn any_scalar() -> Value {
    let k: u8 = kani::any();
    match k % 3 {
        0 => Value::Number(kani::any()),
        1 => Value::Bool(kani::any()),
        _ => Value::Null,
    }
}

fn same_value(a: &Value, b: &Value) -> bool {
    match (a, b) {
        (Value::Number(x), Value::Number(y)) => crate::verif_common::same_bits(*x, *y),
        (Value::Bool(x), Value::Bool(y)) => x == y,
        (Value::Null, Value::Null) => true,
        _ => false,
    }
}

fn opt_same(a: &Option<Value>, b: &Option<Value>) -> bool {
    match (a, b) {
        (Some(x), Some(y)) => same_value(x, y),
        (None, None) => true,
        _ => false,
    }
}

static mut EVAL_CALLS: usize = 0;
static mut EVAL_DEPTH: usize = 0;
static mut EVAL_SAME_ENV: bool = false;
static mut EVAL_RET: Option<Value> = None;
static mut EXPECT_ENV: Option<Rc<Environment>> = None;

fn probe_eval(
    _expr: &SpannedExpr,
    heap: Rc<RefCell<Heap>>,
    bindings: Rc<Environment>,
    call_depth: usize,
    source: Rc<str>,
) -> Result<Value, RuntimeError> {
    // never run Rc drop glue in a probe (CBMC would explore "last reference => destroy the heap")
    std::mem::forget(heap);
    std::mem::forget(source);
    unsafe {
        EVAL_CALLS += 1;
        EVAL_DEPTH = call_depth;
        let exp = &*std::ptr::addr_of!(EXPECT_ENV);
        EVAL_SAME_ENV = matches!(exp, Some(e) if Rc::ptr_eq(e, &bindings));
    }
    std::mem::forget(bindings);
    if kani::any() {
        let v = any_scalar();
        unsafe { EVAL_RET = Some(v); }
        Ok(v)
    } else {
        unsafe { EVAL_RET = None; }
        Err(RuntimeError::new(String::new()))
    }
}

fn eval_calls() -> usize { unsafe { EVAL_CALLS } }
fn eval_ret() -> Option<Value> { unsafe { EVAL_RET } }
fn eval_same_env() -> bool { unsafe { EVAL_SAME_ENV } }
fn eval_depth() -> usize { unsafe { EVAL_DEPTH } }
fn expect_env(e: &Rc<Environment>) { unsafe { EXPECT_ENV = Some(Rc::clone(e)); } }

macro_rules! dispatch16 {
    ($i:expr, $f:ident) => {
        match $i {
            0 => $f(0), 1 => $f(1), 2 => $f(2), 3 => $f(3), 4 => $f(4), 5 => $f(5), 6 => $f(6), 7 => $f(7),
            8 => $f(8), 9 => $f(9), 10 => $f(10), 11 => $f(11), 12 => $f(12), 13 => $f(13), 14 => $f(14), _ => $f(15),
        }
    };
}

const POOL: [&str; 16] = ["x", "y", "z", "sqrt", "map", "inputs", "constants", "if", "then", "else", "true", "false", "null", "and", "or", "w"];
// what the statement says can never be bound at top level: keywords, built-in names, inputs, constants
fn reserved(i: usize) -> bool { i >= 3 && i <= 14 }

fn hv(i: u32) -> Value { Value::Number(1000.0 + i as f64) }

/// parent binds z; child (the scope the statement runs in) binds y; x and w are fresh
fn make_env() -> (Rc<Environment>, Rc<Environment>) {
    let parent = Rc::new(Environment::new());
    parent.insert("z".to_string(), hv(1));
    let child = Rc::new(Environment::extend(Rc::clone(&parent)));
    child.insert("y".to_string(), hv(2));
    (parent, child)
}

// ---- U-ASSIGN ------------------------------------------------------------------------------------------
// each harness dispatches ONLY to its own constant cases (an `assume` on the index does not stop CBMC's symbolic
// execution from walking the other arms)
macro_rules! assign_harness {
    ($name:ident, $case:ident, [$($k:expr),+], $last:expr) => {
        #[kani::proof]
        #[kani::unwind(12)]
        #[kani::stub(alloc::fmt::format, crate::verif_common::fmt_stub)]
        #[kani::stub(crate::expressions::evaluate_ast, probe_eval)]
        fn $name() {
            let i: usize = kani::any();
            match i {
                $($k => $case($k),)+
                _ => $case($last),
            }
        }
    };
}
assign_harness!(u_assign_toplevel_a, assign_case, [0, 1, 2, 3], 4);
assign_harness!(u_assign_toplevel_b, assign_case, [5, 6, 7, 8], 9);
assign_harness!(u_assign_toplevel_c, assign_case, [10, 11, 12, 13, 14], 15);

fn assign_case(i: usize) {
    let ident = POOL[i].to_string();
    let (parent, env) = make_env();
    expect_env(&env);
    let expr = Spanned::dummy(Expr::Null);
    let value = Box::new(Spanned::dummy(Expr::Null));
    let heap = Rc::new(RefCell::new(Heap::verif_empty()));
    let depth: usize = kani::any();
    let src: Rc<str> = Rc::from("");
    let r = verif_assignment_arm(&expr, &ident, &value, Rc::clone(&heap), Rc::clone(&env), depth, src);
    let visible = i == 1 || i == 2;
    if reserved(i) || visible {
        assert!(r.is_err(), "U-ASSIGN#keywords-builtins-inputs-constants-and-visible-names-cannot-be-bound");
        assert!(eval_calls() == 0, "U-ASSIGN#refused-assignment-does-not-evaluate-its-right-hand-side");
        assert!(env.get(POOL[i]).is_none() || visible, "U-ASSIGN#refused-assignment-binds-nothing");
    } else {
        assert!(eval_calls() == 1 && eval_same_env() && eval_depth() == depth, "U-ASSIGN#right-hand-side-evaluated-exactly-once-in-the-same-scope-and-depth");
        match (&r, &eval_ret()) {
            (Ok(v), Some(w)) => {
                assert!(same_value(v, w), "U-ASSIGN#value-of-the-assignment-is-the-value-bound");
                assert!(matches!(env.get(POOL[i]), Some(b) if same_value(&b, w)), "U-ASSIGN#name-bound-to-the-evaluated-value");
                assert!(parent.get(POOL[i]).is_none(), "U-ASSIGN#binding-is-local-to-the-current-scope");
            }
            (Err(_), None) => assert!(env.get(POOL[i]).is_none(), "U-ASSIGN#failed-right-hand-side-binds-nothing"),
            _ => assert!(false, "U-ASSIGN#success-and-failure-propagate"),
        }
    }
    // every other binding is untouched
    assert!(matches!(env.get("y"), Some(b) if same_value(&b, &hv(2))), "U-ASSIGN#existing-local-binding-unchanged");
    assert!(matches!(env.get("z"), Some(b) if same_value(&b, &hv(1))), "U-ASSIGN#existing-outer-binding-unchanged");
    assert!(matches!(parent.get("z"), Some(b) if same_value(&b, &hv(1))) && parent.get("y").is_none(), "U-ASSIGN#outer-scope-unchanged");
    if i != 15 { assert!(env.get("w").is_none(), "U-ASSIGN#no-other-name-becomes-bound"); }
    assert!(heap.borrow().verif_len() == 0, "U-ASSIGN#no-heap-effect-for-scalar-values");
    kani::cover!(true, "reach-end-of-case");
    std::mem::forget(r); std::mem::forget(heap); std::mem::forget(env); std::mem::forget(parent);
}

// ---- U-DOASSIGN ------------------------------------------------------------------------------------------
const DO_POOL: [&str; 12] = ["x", "y", "z", "return", "if", "then", "else", "do", "true", "false", "null", "output"];

assign_harness!(u_doassign_a, doassign_case, [0, 1, 2], 3);
assign_harness!(u_doassign_b, doassign_case, [4, 5, 6], 7);
assign_harness!(u_doassign_c, doassign_case, [8, 9, 10], 11);

fn doassign_case(i: usize) {
    if i >= DO_POOL.len() { return; }
    // outer scope binds y (local to it) and z (its parent); the block scope is a fresh child of it
    let (_grand, outer) = make_env();
    let block = Rc::new(Environment::extend(Rc::clone(&outer)));
    expect_env(&block);
    let is_assign: bool = kani::any();
    let expr = if is_assign {
        Spanned::dummy(Expr::Assignment { ident: DO_POOL[i].to_string(), value: Box::new(Spanned::dummy(Expr::Null)) })
    } else {
        Spanned::dummy(Expr::Null)
    };
    let heap = Rc::new(RefCell::new(Heap::verif_empty()));
    let depth: usize = kani::any();
    let src: Rc<str> = Rc::from("");
    let r = evaluate_do_block_expr(&expr, Rc::clone(&heap), Rc::clone(&block), depth, src);
    if is_assign && i >= 3 {
        assert!(r.is_err() && eval_calls() == 0, "U-DOASSIGN#keywords-cannot-be-bound-in-a-do-block");
    } else {
        assert!(eval_calls() == 1 && eval_same_env() && eval_depth() == depth, "U-DOASSIGN#expression-evaluated-once-in-the-block-scope-at-the-same-depth");
        match (&r, &eval_ret()) {
            (Ok(v), Some(w)) => {
                assert!(same_value(v, w), "U-DOASSIGN#value-propagates");
                if is_assign { assert!(matches!(block.get(DO_POOL[i]), Some(b) if same_value(&b, w)), "U-DOASSIGN#block-local-name-bound-(shadowing-allowed)"); }
            }
            (Err(_), None) => {}
            _ => assert!(false, "U-DOASSIGN#success-and-failure-propagate"),
        }
    }
    // the enclosing scope never changes: shadowed names keep their value, new names do not leak
    assert!(matches!(outer.get("y"), Some(b) if same_value(&b, &hv(2))), "U-DOASSIGN#outer-binding-never-altered-by-shadowing");
    assert!(matches!(outer.get("z"), Some(b) if same_value(&b, &hv(1))), "U-DOASSIGN#outer-outer-binding-never-altered");
    assert!(outer.get("x").is_none(), "U-DOASSIGN#block-local-names-never-visible-outside");
    kani::cover!(is_assign, "reach-assignment");
    kani::cover!(!is_assign, "reach-plain-expression");
    std::mem::forget(r); std::mem::forget(heap); std::mem::forget(block); std::mem::forget(outer); std::mem::forget(_grand);
}

// ---- U-ENV: the scope chain as a map "local overrides parent" ------------------------------------------
const ENV_POOL: [&str; 3] = ["a", "b", "c"];

#[kani::proof]
#[kani::unwind(6)]
fn u_env_chain() {
    let k: usize = kani::any();
    kani::assume(k < 3);
    let q: usize = kani::any();
    kani::assume(q < 3);
    match (k, q) {
        (0, 0) => env_case(0, 0), (0, 1) => env_case(0, 1), (0, 2) => env_case(0, 2),
        (1, 0) => env_case(1, 0), (1, 1) => env_case(1, 1), (1, 2) => env_case(1, 2),
        (2, 0) => env_case(2, 0), (2, 1) => env_case(2, 1), _ => env_case(2, 2),
    }
}

fn env_case(k: usize, q: usize) {
    // the parent binds a and b (c is unbound); constant shape: a map of symbolic length is intractable for CBMC
    let root = Rc::new(Environment::new());
    root.insert(ENV_POOL[0].to_string(), hv(0));
    root.insert(ENV_POOL[1].to_string(), hv(1));
    let child = Rc::new(Environment::extend(Rc::clone(&root)));
    // before: the child sees exactly the root's view
    assert!(opt_same(&child.get(ENV_POOL[q]), &root.get(ENV_POOL[q])), "U-ENV#fresh-child-scope-sees-exactly-the-parent-view");
    assert!(child.contains_key(ENV_POOL[q]) == child.get(ENV_POOL[q]).is_some(), "U-ENV#contains_key-iff-get-is-some");
    assert!(!child.contains_key_local(ENV_POOL[q]), "U-ENV#fresh-child-scope-has-no-local-names");
    let before = root.get(ENV_POOL[q]);
    let v = any_scalar();
    child.insert(ENV_POOL[k].to_string(), v);
    // after: the inserted name resolves to the new value in the child, every other name is unchanged,
    // and the parent's view is unchanged for every name
    assert!(opt_same(&root.get(ENV_POOL[q]), &before), "U-ENV#insert-into-a-child-never-changes-the-parent-view");
    if q == k { assert!(matches!(child.get(ENV_POOL[q]), Some(b) if same_value(&b, &v)), "U-ENV#local-binding-overrides-the-parent"); }
    else { assert!(opt_same(&child.get(ENV_POOL[q]), &before), "U-ENV#other-names-unchanged-by-insert"); }
    assert!(child.contains_key(ENV_POOL[q]) == child.get(ENV_POOL[q]).is_some(), "U-ENV#contains_key-iff-get-is-some-after-insert");
    assert!(child.contains_key_local(ENV_POOL[q]) == (q == k), "U-ENV#contains_key_local-is-exactly-the-local-names");
    kani::cover!(q == 0 && k == 0, "reach-shadow");
    std::mem::forget(child); std::mem::forget(root);
}
