// Injected (rule T1) as a child module of blots-core/src/formatter.rs under #[cfg(kani)].
// U-PRINT-CALLS: every printing site consults the parenthesisation decision functions with the operand it is about
// to print and the side that operand is on. The decision functions are replaced by probes (their own contracts are
// U-PARENS / U-PARENS-OPERAND); format! is stubbed, so only the *calls* are checked, not the assembled text.
use super::*;
use crate::ast::{Expr, PostfixOp, Spanned, UnaryOp};
use crate::ast_to_source::expr_to_source_with_scope;

static mut EXPECT_LEFT: *const SpannedExpr = std::ptr::null();
static mut EXPECT_RIGHT: *const SpannedExpr = std::ptr::null();
static mut EXPECT_OPERAND: *const SpannedExpr = std::ptr::null();
static mut LEFT_CALLS: usize = 0;
static mut RIGHT_CALLS: usize = 0;
static mut OPERAND_CALLS: usize = 0;
static mut WRONG_CALLS: usize = 0;

fn probe_binop(_op: &BinaryOp, child: &SpannedExpr, is_left: bool) -> bool {
    unsafe {
        let c = child as *const SpannedExpr;
        if is_left && c == EXPECT_LEFT { LEFT_CALLS += 1; }
        else if !is_left && c == EXPECT_RIGHT { RIGHT_CALLS += 1; }
        else if c == EXPECT_LEFT || c == EXPECT_RIGHT { WRONG_CALLS += 1; }
        // calls about other nodes (deeper operands) are not this site's business
    }
    kani::any()
}

fn probe_operand(child: &SpannedExpr) -> bool {
    unsafe {
        if child as *const SpannedExpr == EXPECT_OPERAND { OPERAND_CALLS += 1; }
    }
    kani::any()
}

fn leaf() -> Box<SpannedExpr> { Box::new(Spanned::dummy(Expr::Null)) }

fn any_op() -> BinaryOp {
    let k: u8 = kani::any();
    match k % 6 { 0 => BinaryOp::Add, 1 => BinaryOp::Subtract, 2 => BinaryOp::Power, 3 => BinaryOp::Via, 4 => BinaryOp::Equal, _ => BinaryOp::Coalesce }
}

fn expect_sides(e: &SpannedExpr) {
    if let Expr::BinaryOp { left, right, .. } = &e.node {
        unsafe { EXPECT_LEFT = &**left as *const SpannedExpr; EXPECT_RIGHT = &**right as *const SpannedExpr; }
    }
}

fn check_sides(what_left: &'static str, what_right: &'static str) {
    let (l, r, w) = unsafe { (LEFT_CALLS, RIGHT_CALLS, WRONG_CALLS) };
    let _ = (what_left, what_right);
    assert!(w == 0, "U-PRINT-CALLS#binary:operand-is-never-queried-with-the-wrong-side");
    assert!(l >= 1, "U-PRINT-CALLS#binary:left-operand-is-queried-as-left");
    assert!(r >= 1, "U-PRINT-CALLS#binary:right-operand-is-queried-as-right");
}

macro_rules! print_harness {
    ($name:ident, $body:ident, $unwind:expr) => {
        #[kani::proof]
        #[kani::unwind($unwind)]
        #[kani::stub(alloc::fmt::format, crate::verif_common::fmt_stub)]
        #[kani::stub(crate::ast_to_source::needs_parens_in_binop, probe_binop)]
        #[kani::stub(crate::ast_to_source::needs_parens_in_prefix, probe_operand)]
        #[kani::stub(crate::ast_to_source::needs_parens_in_postfix, probe_operand)]
        fn $name() {
            $body();
        }
    };
}

// (1) single-line printer
fn print_binary_single_line() {
    let e = Spanned::dummy(Expr::BinaryOp { op: any_op(), left: leaf(), right: leaf() });
    expect_sides(&e);
    let s = expr_to_source(&e);
    std::mem::forget(s);
    check_sides("", "");
    std::mem::forget(e);
}
print_harness!(u_print_calls_single_line, print_binary_single_line, 4);

// (2) printer with inlined scope (function outputs)
fn print_binary_with_scope() {
    let e = Spanned::dummy(Expr::BinaryOp { op: any_op(), left: leaf(), right: leaf() });
    expect_sides(&e);
    let scope = indexmap::IndexMap::new();
    let s = expr_to_source_with_scope(&e, &scope);
    std::mem::forget(s);
    check_sides("", "");
    std::mem::forget(e); std::mem::forget(scope);
}
print_harness!(u_print_calls_with_scope, print_binary_with_scope, 4);

// (3) multi-line layout of a binary operation: every layout path (lambda on the right of via/into/where that fits,
// that does not fit, and the default break-before-operator path), chosen by the symbolic width
fn print_binary_multiline() {
    let lambda_right: bool = kani::any();
    let right = if lambda_right { Box::new(Spanned::dummy(Expr::Lambda { args: Vec::new(), body: leaf() })) } else { leaf() };
    let op = if lambda_right { BinaryOp::Via } else { any_op() };
    let e = Spanned::dummy(Expr::BinaryOp { op, left: leaf(), right });
    expect_sides(&e);
    let max_cols: usize = kani::any();
    kani::assume(max_cols <= 200);
    if let Expr::BinaryOp { op, left, right } = &e.node {
        let s = format_binary_op_multiline(op, left, right, max_cols, 0);
        std::mem::forget(s);
    }
    check_sides("", "");
    std::mem::forget(e);
}
print_harness!(u_print_calls_multiline, print_binary_multiline, 4);

// (4) operands of prefix / postfix operators, calls, index and field access
fn print_operands() {
    let k: u8 = kani::any();
    let operand = leaf();
    unsafe { EXPECT_OPERAND = &*operand as *const SpannedExpr; }
    let e = match k % 5 {
        0 => Spanned::dummy(Expr::UnaryOp { op: UnaryOp::Negate, expr: operand }),
        1 => Spanned::dummy(Expr::PostfixOp { op: PostfixOp::Factorial, expr: operand }),
        2 => Spanned::dummy(Expr::Call { func: operand, args: Vec::new() }),
        3 => Spanned::dummy(Expr::Access { expr: operand, index: leaf() }),
        _ => Spanned::dummy(Expr::DotAccess { expr: operand, field: String::new() }),
    };
    let with_scope: bool = kani::any();
    if with_scope {
        let scope = indexmap::IndexMap::new();
        let s = expr_to_source_with_scope(&e, &scope);
        std::mem::forget(s); std::mem::forget(scope);
    } else {
        let s = expr_to_source(&e);
        std::mem::forget(s);
    }
    assert!(unsafe { OPERAND_CALLS } >= 1, "U-PRINT-CALLS#operand:prefix-postfix-call-index-field-operand-is-queried");
    std::mem::forget(e);
}
print_harness!(u_print_calls_operands, print_operands, 4);

// (5) call layouts of the formatter (single-line and multi-line) query the callee position
fn print_call_layouts() {
    let func = leaf();
    unsafe { EXPECT_OPERAND = &*func as *const SpannedExpr; }
    let e = Spanned::dummy(Expr::Call { func, args: Vec::new() });
    let multi: bool = kani::any();
    if multi {
        if let Expr::Call { func, args } = &e.node {
            let s = format_call_multiline(func, args, 80, 0);
            std::mem::forget(s);
        }
    } else {
        let s = format_single_line(&e);
        std::mem::forget(s);
    }
    assert!(unsafe { OPERAND_CALLS } >= 1, "U-PRINT-CALLS#operand:formatter-call-layouts-query-the-callee");
    std::mem::forget(e);
}
print_harness!(u_print_calls_call_layouts, print_call_layouts, 4);
