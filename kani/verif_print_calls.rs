// Injected (rule T1) as a child module of blots-core/src/formatter.rs under #[cfg(kani)].
// U-PRINT-CALLS: every printing site consults the parenthesisation decision functions with the operand it is about
// to print and the side that operand is on. The arms of expr_to_source / expr_to_source_with_scope / format_single_line
// are sliced verbatim (rule T3) into verif_print_* functions; the recursive printers are replaced by probes returning an
// empty string (calling the real recursive printers makes CBMC explore every arm at every level), the decision functions
// by probes that record (operand, side) and return an arbitrary decision, and format! is stubbed: only the CALLS are
// checked, not the assembled text.
use super::*;
use crate::ast::{Expr, PostfixOp, Spanned, UnaryOp};
use crate::ast_to_source::SerializableScope;

static mut EXPECT_LEFT: *const SpannedExpr = std::ptr::null();
static mut EXPECT_RIGHT: *const SpannedExpr = std::ptr::null();
static mut EXPECT_OPERAND: *const SpannedExpr = std::ptr::null();
static mut LEFT_CALLS: usize = 0;
static mut RIGHT_CALLS: usize = 0;
static mut OPERAND_CALLS: usize = 0;
static mut WRONG_CALLS: usize = 0;

fn probe_binop(_op: &BinaryOp, child: &SpannedExpr, is_left: bool) -> bool {
    unsafe {
        let c = child as *const SpannedExpr;
        if is_left && c == EXPECT_LEFT { LEFT_CALLS += 1; }
        else if !is_left && c == EXPECT_RIGHT { RIGHT_CALLS += 1; }
        else { WRONG_CALLS += 1; }
    }
    kani::any()
}

fn probe_operand(child: &SpannedExpr) -> bool {
    unsafe {
        if child as *const SpannedExpr == EXPECT_OPERAND { OPERAND_CALLS += 1; }
    }
    kani::any()
}

// non-empty results: std's `join` / `lines` on zero-length strings go through zero-size raw-pointer code that Kani's
// memory model flags (false positives unrelated to the code under contract)
fn fmt_x(_args: std::fmt::Arguments<'_>) -> String { String::from("x") }
fn print_stub(_e: &SpannedExpr) -> String { String::from("x") }
fn print_scope_stub(_e: &SpannedExpr, _s: &SerializableScope) -> String { String::from("x") }
fn format_impl_stub(_e: &SpannedExpr, _max_cols: usize, _indent: usize) -> String { String::from("x") }

fn leaf() -> Box<SpannedExpr> { Box::new(Spanned::dummy(Expr::Null)) }

// one-element argument list (collecting an EMPTY mapped iterator trips a Kani allocator-model check)
fn one_arg() -> Vec<SpannedExpr> { vec![Spanned::dummy(Expr::Null)] }

fn any_op() -> BinaryOp {
    let k: u8 = kani::any();
    match k % 6 { 0 => BinaryOp::Add, 1 => BinaryOp::Subtract, 2 => BinaryOp::Power, 3 => BinaryOp::Via, 4 => BinaryOp::Equal, _ => BinaryOp::Coalesce }
}

fn expect_sides(left: &Box<SpannedExpr>, right: &Box<SpannedExpr>) {
    unsafe { EXPECT_LEFT = &**left as *const SpannedExpr; EXPECT_RIGHT = &**right as *const SpannedExpr; }
}

fn check_sides() {
    let (l, r, w) = unsafe { (LEFT_CALLS, RIGHT_CALLS, WRONG_CALLS) };
    assert!(w == 0, "U-PRINT-CALLS#binary:no-operand-is-queried-with-the-wrong-side");
    assert!(l >= 1, "U-PRINT-CALLS#binary:left-operand-is-queried-as-left");
    assert!(r >= 1, "U-PRINT-CALLS#binary:right-operand-is-queried-as-right");
}

macro_rules! print_harness {
    ($name:ident, $body:ident) => {
        #[kani::proof]
        #[kani::unwind(6)]
        #[kani::stub(alloc::fmt::format, fmt_x)]
        #[kani::stub(std::hash::RandomState::new, crate::verif_common::rs_stub)]
        #[kani::stub(crate::ast_to_source::needs_parens_in_binop, probe_binop)]
        #[kani::stub(crate::ast_to_source::needs_parens_in_prefix, probe_operand)]
        #[kani::stub(crate::ast_to_source::needs_parens_in_postfix, probe_operand)]
        #[kani::stub(crate::ast_to_source::expr_to_source, print_stub)]
        #[kani::stub(crate::ast_to_source::expr_to_source_with_scope, print_scope_stub)]
        #[kani::stub(crate::formatter::format_expr_impl, format_impl_stub)]
        #[kani::stub(crate::formatter::format_single_line, print_stub)]
        fn $name() {
            $body();
        }
    };
}

// (1) BinaryOp arm of expr_to_source and of expr_to_source_with_scope
fn print_binary_arms() {
    let (left, right) = (leaf(), leaf());
    expect_sides(&left, &right);
    let op = any_op();
    if kani::any() {
        let s = crate::ast_to_source::verif_print_binop(&op, &left, &right);
        std::mem::forget(s);
    } else {
        let scope = SerializableScope::new();
        let s = crate::ast_to_source::verif_print_binop_scope(&op, &left, &right, &scope);
        std::mem::forget(s); std::mem::forget(scope);
    }
    check_sides();
    kani::cover!(true, "reach-end");
    std::mem::forget(left); std::mem::forget(right);
}
print_harness!(u_print_calls_binary_arms, print_binary_arms);

// (2) multi-line layout of a binary operation: every layout path (lambda on the right of via/into/where that fits,
// that does not fit, and the default break-before-operator path); the width is symbolic
fn print_binary_multiline() {
    let lambda_right: bool = kani::any();
    let left = leaf();
    let right = if lambda_right { Box::new(Spanned::dummy(Expr::Lambda { args: Vec::new(), body: leaf() })) } else { leaf() };
    let op = if lambda_right { BinaryOp::Via } else { any_op() };
    expect_sides(&left, &right);
    let max_cols: usize = kani::any();
    kani::assume(max_cols <= 200);
    let s = format_binary_op_multiline(&op, &left, &right, max_cols, 0);
    std::mem::forget(s);
    check_sides();
    kani::cover!(lambda_right, "reach-lambda-layouts");
    kani::cover!(!lambda_right, "reach-default-layout");
    std::mem::forget(left); std::mem::forget(right);
}
print_harness!(u_print_calls_multiline, print_binary_multiline);

// (3) operands of prefix / postfix operators, calls, index and field access, in both printers
fn operand_case(k: u8) {
    let operand = leaf();
    unsafe { EXPECT_OPERAND = &*operand as *const SpannedExpr; }

    let s = match k {
        0 => crate::ast_to_source::verif_print_unary(&UnaryOp::Negate, &operand),
        1 => crate::ast_to_source::verif_print_postfix(&PostfixOp::Factorial, &operand),
        2 => crate::ast_to_source::verif_print_access(&operand, &leaf()),
        _ => crate::ast_to_source::verif_print_dot(&operand, &String::from("f")),
    };
    std::mem::forget(s);
    assert!(unsafe { OPERAND_CALLS } >= 1, "U-PRINT-CALLS#operand:prefix-postfix-index-field-operand-is-queried");
    std::mem::forget(operand);
}

fn print_operand_arms() {
    let k: u8 = kani::any();
    // (the Call arm of the two printers maps the recursive printer over the argument list; that harness did not
    // finish in 15 minutes and the callee position is covered for the formatter's call layouts by harness (4))
    match k % 4 { 0 => operand_case(0), 1 => operand_case(1), 2 => operand_case(2), _ => operand_case(3) }
    kani::cover!(true, "reach-end");
}
print_harness!(u_print_calls_operand_arms, print_operand_arms);

fn operand_scope_case(k: u8) {
    let operand = leaf();
    unsafe { EXPECT_OPERAND = &*operand as *const SpannedExpr; }
    let scope = SerializableScope::new();

    let s = match k {
        0 => crate::ast_to_source::verif_print_unary_scope(&UnaryOp::Not, &operand, &scope),
        1 => crate::ast_to_source::verif_print_postfix_scope(&PostfixOp::Factorial, &operand, &scope),
        2 => crate::ast_to_source::verif_print_access_scope(&operand, &leaf(), &scope),
        _ => crate::ast_to_source::verif_print_dot_scope(&operand, &String::from("f"), &scope),
    };
    std::mem::forget(s);
    assert!(unsafe { OPERAND_CALLS } >= 1, "U-PRINT-CALLS#operand:function-output-printer-queries-the-operand");
    std::mem::forget(operand); std::mem::forget(scope);
}

fn print_operand_scope_arms() {
    let k: u8 = kani::any();
    match k % 4 { 0 => operand_scope_case(0), 1 => operand_scope_case(1), 2 => operand_scope_case(2), _ => operand_scope_case(3) }
    kani::cover!(true, "reach-end");
}
print_harness!(u_print_calls_operand_scope_arms, print_operand_scope_arms);

// (4) call layouts of the formatter (single-line arm and multi-line function) query the callee position
fn print_call_layouts() {
    let func = leaf();
    unsafe { EXPECT_OPERAND = &*func as *const SpannedExpr; }
    let args: Vec<SpannedExpr> = one_arg();
    let s = if kani::any() { format_call_multiline(&func, &args, 80, 0) } else { verif_print_single_line_call(&func, &args) };
    std::mem::forget(s);
    assert!(unsafe { OPERAND_CALLS } >= 1, "U-PRINT-CALLS#operand:formatter-call-layouts-query-the-callee");
    kani::cover!(true, "reach-end");
    std::mem::forget(func); std::mem::forget(args);
}
print_harness!(u_print_calls_call_layouts, print_call_layouts);
