// Injected (rule T1) as a child module of blots-core/src/expressions.rs under #[cfg(kani)].
// U-DOASSIGN / U-DOBLOCK (C03): the two do-block sites. Probes keep NO Rc in statics (dropping a replaced
// Rc<Environment> makes CBMC explore the destruction of whole scope chains); they inspect the scope they are handed,
// record plain values, and forget their Rc arguments.
use super::*;

fn hv(i: u32) -> Value { Value::Number(1000.0 + i as f64) }
fn is(v: Option<Value>, i: u32) -> bool { matches!(v, Some(Value::Number(x)) if x == 1000.0 + i as f64) }

static mut CALLS: usize = 0;
static mut SAW_OUTER_NAME: bool = true;
static mut SAW_BLOCK_NAME_FROM_EARLIER_STATEMENT: bool = true;
static mut DEPTH_OK: bool = true;
static mut FAIL_AT: usize = 99;

// ---- evaluate_do_block_expr ---------------------------------------------------------------------------------
fn rhs_probe(
    _expr: &SpannedExpr, heap: Rc<RefCell<Heap>>, bindings: Rc<Environment>, _d: usize, source: Rc<str>,
) -> Result<Value, RuntimeError> {
    std::mem::forget(heap); std::mem::forget(source); std::mem::forget(bindings);
    unsafe { CALLS += 1; }
    Ok(hv(7))
}

fn doassign_case(name: &'static str, keyword: bool) {
    // the enclosing scope binds y; the block scope is a fresh child of it
    let outer = Rc::new(Environment::new());
    outer.insert("y".to_string(), hv(2));
    let block = Rc::new(Environment::extend(Rc::clone(&outer)));
    let expr = Spanned::dummy(Expr::Assignment { ident: name.to_string(), value: Box::new(Spanned::dummy(Expr::Null)) });
    let heap = Rc::new(RefCell::new(Heap::verif_empty()));
    let src: Rc<str> = Rc::from("");
    let r = evaluate_do_block_expr(&expr, Rc::clone(&heap), Rc::clone(&block), 3, src);
    let calls = unsafe { CALLS };
    if keyword {
        assert!(r.is_err() && calls == 0, "U-DOASSIGN#keywords-cannot-be-bound-in-a-do-block");
        assert!(block.get(name).is_none(), "U-DOASSIGN#refused-assignment-binds-nothing");
    } else {
        assert!(calls == 1 && is(r.as_ref().ok().copied(), 7), "U-DOASSIGN#right-hand-side-evaluated-once-and-its-value-returned");
        assert!(is(block.get(name), 7), "U-DOASSIGN#name-bound-in-the-block-scope-(shadowing-allowed)");
    }
    // the enclosing scope never changes: a shadowed name keeps its value, a new name does not leak
    assert!(is(outer.get("y"), 2), "U-DOASSIGN#outer-binding-never-altered-by-shadowing");
    assert!(outer.get("x").is_none(), "U-DOASSIGN#block-local-names-never-visible-outside");
    kani::cover!(true, "reach-end-of-case");
    std::mem::forget(r); std::mem::forget(heap); std::mem::forget(block); std::mem::forget(outer); std::mem::forget(expr);
}

macro_rules! doassign_harness {
    ($name:ident, [$(($k:expr, $s:expr, $kw:expr)),+]) => {
        #[kani::proof]
        #[kani::unwind(16)]
        #[kani::stub(alloc::fmt::format, crate::verif_common::fmt_stub)]
        #[kani::stub(crate::expressions::evaluate_ast, rhs_probe)]
        fn $name() {
            let i: u8 = kani::any();
            match i {
                $($k => doassign_case($s, $kw),)+
                _ => {}
            }
        }
    };
}
doassign_harness!(u_doassign_names, [(0, "x", false), (1, "y", false), (2, "return", true), (3, "output", true)]);
doassign_harness!(u_doassign_keywords_a, [(0, "if", true), (1, "then", true), (2, "else", true), (3, "do", true)]);
doassign_harness!(u_doassign_keywords_b, [(0, "true", true), (1, "false", true), (2, "null", true)]);

// ---- Expr::DoBlock arm (T3 slice: verif_doblock_arm) ----------------------------------------------------------
fn stmt_probe(
    _expr: &SpannedExpr, heap: Rc<RefCell<Heap>>, bindings: Rc<Environment>, call_depth: usize, source: Rc<str>,
) -> Result<Value, RuntimeError> {
    std::mem::forget(heap); std::mem::forget(source);
    let i = unsafe { CALLS };
    unsafe {
        CALLS = i + 1;
        if call_depth != 5 { DEPTH_OK = false; }
        if !is(bindings.get("o"), 1) { SAW_OUTER_NAME = false; }
        if i > 0 && !is(bindings.get("b"), 7) { SAW_BLOCK_NAME_FROM_EARLIER_STATEMENT = false; }
    }
    // what a do-block assignment does: bind a block-local name
    if i == 0 { bindings.insert("b".to_string(), hv(7)); }
    std::mem::forget(bindings);
    if i == unsafe { FAIL_AT } { Err(RuntimeError::new(String::new())) } else { Ok(hv(20 + i as u32)) }
}

fn stmt() -> Commented<SpannedExpr> { Commented::new(Spanned::dummy(Expr::Null)) }

fn doblock_case(nstmts: usize, fail_at: usize) {
    let outer = Rc::new(Environment::new());
    outer.insert("o".to_string(), hv(1));
    unsafe { FAIL_AT = fail_at; }
    let mut statements: Vec<Commented<SpannedExpr>> = Vec::new();
    if nstmts > 0 { statements.push(stmt()); }
    if nstmts > 1 { statements.push(stmt()); }
    let ret = Box::new(stmt());
    let heap = Rc::new(RefCell::new(Heap::verif_empty()));
    let src: Rc<str> = Rc::from("");
    let r = verif_doblock_arm(&statements, &ret, Rc::clone(&heap), Rc::clone(&outer), 5, src);
    let calls = unsafe { CALLS };
    if fail_at <= nstmts {
        assert!(r.is_err() && calls == fail_at + 1, "U-DOBLOCK#a-failing-statement-stops-the-block-and-fails-it");
    } else {
        assert!(calls == nstmts + 1, "U-DOBLOCK#every-statement-then-the-return-expression-is-evaluated-once");
        assert!(is(r.as_ref().ok().copied(), 20 + nstmts as u32), "U-DOBLOCK#value-of-the-block-is-the-return-expression");
    }
    unsafe {
        assert!(SAW_OUTER_NAME, "U-DOBLOCK#enclosing-names-are-visible-inside-the-block");
        assert!(SAW_BLOCK_NAME_FROM_EARLIER_STATEMENT, "U-DOBLOCK#all-statements-and-the-return-share-one-block-scope");
        assert!(DEPTH_OK, "U-DOBLOCK#call-depth-passed-through-unchanged");
    }
    assert!(outer.get("b").is_none(), "U-DOBLOCK#block-runs-in-a-fresh-scope:its-names-never-reach-the-enclosing-one");
    assert!(is(outer.get("o"), 1), "U-DOBLOCK#enclosing-binding-unchanged");
    kani::cover!(true, "reach-end-of-case");
    std::mem::forget(r); std::mem::forget(heap); std::mem::forget(outer); std::mem::forget(statements); std::mem::forget(ret);
}

macro_rules! doblock_harness {
    ($name:ident, [$(($k:expr, $n:expr, $f:expr)),+]) => {
        #[kani::proof]
        #[kani::unwind(5)]
        #[kani::stub(alloc::fmt::format, crate::verif_common::fmt_stub)]
        #[kani::stub(crate::expressions::evaluate_do_block_expr, stmt_probe)]
        fn $name() {
            let i: u8 = kani::any();
            match i {
                $($k => doblock_case($n, $f),)+
                _ => {}
            }
        }
    };
}
// (number of statements, index of the failing evaluation; 99 = none fails)
doblock_harness!(u_doblock_ok, [(0, 0, 99), (1, 1, 99), (2, 2, 99)]);
doblock_harness!(u_doblock_failing, [(0, 0, 0), (1, 1, 0), (2, 1, 1), (3, 2, 1), (4, 2, 2)]);
