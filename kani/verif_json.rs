// Injected (rule T1) as a child module of blots-core/src/values.rs under #[cfg(kani)].
// U-JSON-SCALAR: the structural mapping value <-> serde_json::Value <-> heap value is the identity on
// scalars (bit-exact for every finite double, including -0). The JSON *text* layer is not part of this unit.
use super::*;
use crate::heap::Heap;
use crate::verif_common::same_bits;

fn any_json_scalar() -> SerializableValue {
    let k: u8 = kani::any();
    match k % 3 {
        0 => {
            let x: f64 = kani::any();
            kani::assume(x.is_finite());
            SerializableValue::Number(x)
        }
        1 => SerializableValue::Bool(kani::any()),
        _ => SerializableValue::Null,
    }
}

fn same_sv(a: &SerializableValue, b: &SerializableValue) -> bool {
    match (a, b) {
        (SerializableValue::Number(x), SerializableValue::Number(y)) => same_bits(*x, *y) && !x.is_nan(),
        (SerializableValue::Bool(x), SerializableValue::Bool(y)) => x == y,
        (SerializableValue::Null, SerializableValue::Null) => true,
        _ => false,
    }
}

// The variant is dispatched OUTSIDE the calls (one call per constant variant): with a merged symbolic variant CBMC
// explores every arm of to_json / from_json / to_value, including the pest parser behind the Lambda arm.
fn json_roundtrip(v: SerializableValue) {
    let j = v.to_json();
    let back = SerializableValue::from_json(&j);
    assert!(same_sv(&v, &back), "U-JSON-SCALAR#from_json(to_json(v))-is-v-bit-exactly-for-finite-numbers-booleans-null");
    std::mem::forget(j);
    std::mem::forget(back);
    std::mem::forget(v);
}

fn heap_roundtrip(v: SerializableValue) {
    let mut h = Heap::verif_empty();
    let val = match v.to_value(&mut h) { Ok(x) => x, Err(e) => { std::mem::forget(e); assert!(false, "U-JSON-SCALAR#to_value-never-fails-on-scalars"); return; } };
    assert!(h.verif_len() == 0, "U-JSON-SCALAR#scalars-allocate-nothing");
    let back = match SerializableValue::from_value(&val, &h) { Ok(x) => x, Err(e) => { std::mem::forget(e); assert!(false, "U-JSON-SCALAR#from_value-never-fails-on-scalars"); return; } };
    assert!(same_sv(&v, &back), "U-JSON-SCALAR#from_value(to_value(v))-is-v-bit-exactly");
    std::mem::forget(h);
    std::mem::forget(back);
    std::mem::forget(v);
}

fn finite() -> f64 {
    let x: f64 = kani::any();
    kani::assume(x.is_finite());
    x
}

#[kani::proof]
#[kani::unwind(3)]
fn u_json_scalar_roundtrip() {
    let k: u8 = kani::any();
    match k % 3 {
        0 => json_roundtrip(SerializableValue::Number(finite())),
        1 => json_roundtrip(SerializableValue::Bool(kani::any())),
        _ => json_roundtrip(SerializableValue::Null),
    }
    kani::cover!(k % 3 == 0, "reach-number");
    kani::cover!(k % 3 == 2, "reach-null");
}

#[kani::proof]
#[kani::unwind(3)]
#[kani::stub(alloc::fmt::format, crate::verif_common::fmt_stub)]
#[kani::stub(std::backtrace::Backtrace::capture, crate::verif_common::bt_stub)]
fn u_json_scalar_heap_roundtrip() {
    let k: u8 = kani::any();
    match k % 3 {
        0 => heap_roundtrip(SerializableValue::Number(finite())),
        1 => heap_roundtrip(SerializableValue::Bool(kani::any())),
        _ => heap_roundtrip(SerializableValue::Null),
    }
    kani::cover!(k % 3 == 0, "reach-number");
    kani::cover!(k % 3 == 1, "reach-bool");
}
