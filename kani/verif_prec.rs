// Injected (rule T1) as a child module of blots-core/src/precedence.rs under #[cfg(kani)].
// U-PREC: the order of the numbers returned by operator_info equals the order of the levels in the
// statement of C10 (typed into /verif/vlib/spec_tables.py), associativity is Right exactly for ^,
// and the grammar rule paired with each operator in PRECEDENCE_TABLE is the statement's spelling.
use super::*;
use crate::ast::BinaryOp;

//@GEN op_from_index

//@GEN spec_level

fn rule_of(op: BinaryOp) -> Option<Rule> {
    let mut i = 0;
    while i < PRECEDENCE_TABLE.len() {
        if PRECEDENCE_TABLE[i].2 == op {
            return Some(PRECEDENCE_TABLE[i].3);
        }
        i += 1;
    }
    None
}

#[kani::proof]
#[kani::unwind(28)]
fn u_prec_order() {
    let a = any_binop();
    let b = any_binop();
    let (pa, aa) = operator_info(&a);
    let (pb, _) = operator_info(&b);
    let (la, lb) = (spec_level(a), spec_level(b));
    assert!((pa < pb) == (la < lb), "U-PREC#order:numbers-order-operators-as-the-statement-levels");
    assert!((pa == pb) == (la == lb), "U-PREC#order:same-number-iff-same-level");
    assert!((aa == Assoc::Right) == (a == BinaryOp::Power), "U-PREC#assoc:right-associative-exactly-for-power");
    assert!(aa == Assoc::Right || aa == Assoc::Left, "U-PREC#assoc:left-or-right");
    kani::cover!(la < lb, "reach-looser");
    kani::cover!(la == lb && a != b, "reach-same-level");
}

#[kani::proof]
#[kani::unwind(28)]
fn u_prec_table_rules() {
    assert!(PRECEDENCE_TABLE.len() == 26, "U-PREC#table-has-26-rows");
//@GEN table_rules
    kani::cover!(true, "reach-end");
}
