// Injected (rule T1) as a child module of blots-core/src/ast_to_source.rs under #[cfg(kani)].
// Contracts for the printer's parenthesisation decisions. The specification side (levels,
// associativity, which terms are open-ended) is typed in from the statement of C10/C07 and
// generated into the //@GEN blocks by /verif/vlib/gen.py; nothing here reads
// PRECEDENCE_TABLE.
use super::*;
use crate::ast::*;
use crate::values::LambdaArg;

fn leaf() -> Box<SpannedExpr> {
    Box::new(Spanned::dummy(Expr::Null))
}

fn bin(op: BinaryOp, l: Box<SpannedExpr>, r: Box<SpannedExpr>) -> SpannedExpr {
    Spanned::dummy(Expr::BinaryOp { op, left: l, right: r })
}

// kind: 0 conditional, 1 lambda, 2 assignment
fn open_term(kind: u8) -> SpannedExpr {
    match kind {
        0 => Spanned::dummy(Expr::Conditional { condition: leaf(), then_expr: leaf(), else_expr: leaf() }),
        1 => Spanned::dummy(Expr::Lambda { args: Vec::<LambdaArg>::new(), body: leaf() }),
        _ => Spanned::dummy(Expr::Assignment { ident: String::new(), value: leaf() }),
    }
}

//@GEN op_from_index

// ---- contract of precedence::operator_info (proved for the real function by U-PREC) ------------
// "the numbers order the operators as the statement's levels do; ^ alone is right-associative".
// The stub below is an ARBITRARY function satisfying that contract: the six level numbers are
// symbolic, constrained only to be strictly increasing, so the callers are verified against the
// contract and not against the body (or the particular numbers) of operator_info.
static mut LV: [u8; 7] = [0; 7];

fn init_operator_info_contract() {
    let v: [u8; 7] = kani::any();
    kani::assume(v[1] < v[2] && v[2] < v[3] && v[3] < v[4] && v[4] < v[5] && v[5] < v[6]);
    unsafe { LV = v; }
}

//@GEN spec_level

//@GEN spec_must_wrap

fn operator_info_contract(op: &BinaryOp) -> (u8, Assoc) {
    let l = unsafe { LV[spec_level(*op)] };
    (l, if *op == BinaryOp::Power { Assoc::Right } else { Assoc::Left })
}

/// Specification (from the grammar): does the printed text of `e` end in a term that
/// extends as far right as possible? Inner parenthesisation decisions are the real ones.
fn spec_ends_open(e: &SpannedExpr) -> bool {
    match &e.node {
        Expr::Conditional { .. } | Expr::Lambda { .. } | Expr::Assignment { .. } => true,
        Expr::BinaryOp { op, right, .. } => !needs_parens_in_binop(op, right, false) && spec_ends_open(right),
        Expr::UnaryOp { expr, .. } => !needs_parens_in_prefix(expr) && spec_ends_open(expr),
        _ => false,
    }
}

// ---- U-PARENS: binary child under binary parent, every (parent, child, side) -----------------
#[kani::proof]
#[kani::unwind(3)]
#[kani::stub(crate::precedence::operator_info, operator_info_contract)]
fn u_parens_binary() {
    init_operator_info_contract();
    let p = any_binop();
    let c = any_binop();
    let is_left: bool = kani::any();
    let child = bin(c, leaf(), leaf());
    let r = needs_parens_in_binop(&p, &child, is_left);
    std::mem::forget(child);
    assert!(!spec_must_wrap(p, c, is_left) || r, "U-PARENS#binary-child:operand-that-reparsing-would-regroup-must-be-wrapped");
    // the contract is not vacuous: both outcomes occur
    kani::cover!(spec_must_wrap(p, c, is_left), "reach-must");
    kani::cover!(!spec_must_wrap(p, c, is_left) && !r, "reach-unwrapped");
    kani::cover!(true, "reach-end");
}

// ---- U-PARENS: an open-ended term is never followed by an operator without a closing paren ---
// left operand = open term directly
#[kani::proof]
#[kani::unwind(3)]
#[kani::stub(crate::precedence::operator_info, operator_info_contract)]
fn u_parens_open_left() {
    init_operator_info_contract();
    //@GEN parens_open_left
    kani::cover!(true, "reach-end");
}

// left operand = spine of right-nested binary / prefix operators ending in an open term; all
// operators symbolic. Obligation: either the parent wraps the left operand, or some inner level
// already closed the open term (then the text of the left operand does not end open).
#[kani::proof]
#[kani::unwind(4)]
#[kani::stub(crate::precedence::operator_info, operator_info_contract)]
fn u_parens_open_spine() {
    init_operator_info_contract();
    let p = any_binop();
    let c1 = any_binop();
    let c2 = any_binop();
    let k: u8 = kani::any();
    kani::assume(k < 3);
    let shape: u8 = kani::any();
    kani::assume(shape < 5);
    let t = Box::new(open_term(k));
    let child = match shape {
        // a c1 OPEN
        0 => bin(c1, leaf(), t),
        // a c1 (b c2 OPEN)
        1 => bin(c1, leaf(), Box::new(bin(c2, leaf(), t))),
        // -OPEN
        2 => Spanned::dummy(Expr::UnaryOp { op: UnaryOp::Negate, expr: t }),
        // a c1 -OPEN
        3 => bin(c1, leaf(), Box::new(Spanned::dummy(Expr::UnaryOp { op: UnaryOp::Not, expr: t }))),
        // -(a c1 OPEN) : prefix operand is binary
        _ => Spanned::dummy(Expr::UnaryOp { op: UnaryOp::Negate, expr: Box::new(bin(c1, leaf(), t)) }),
    };
    let wrapped = needs_parens_in_binop(&p, &child, true);
    let ends_open = spec_ends_open(&child);
    assert!(wrapped || !ends_open, "U-PARENS#open-term-spine:left-operand-ending-open-must-be-wrapped");
    kani::cover!(wrapped && shape == 1, "reach-wrapped-deep");
    kani::cover!(!ends_open && shape == 1, "reach-inner-closed");
    std::mem::forget(child);
}

// ---- U-PARENS-OPERAND: operands of prefix and postfix operators ------------------------------
#[kani::proof]
#[kani::unwind(4)]
fn u_parens_operand() {
    let c = any_binop();
    let b = bin(c, leaf(), leaf());
    assert!(needs_parens_in_prefix(&b), "U-PARENS-OPERAND#prefix:binary-operand-must-be-wrapped");
    assert!(needs_parens_in_postfix(&b), "U-PARENS-OPERAND#postfix:binary-operand-must-be-wrapped");
    std::mem::forget(b);

    let uk: u8 = kani::any();
    let uop = match uk % 3 { 0 => UnaryOp::Negate, 1 => UnaryOp::Not, _ => UnaryOp::Invert };
    let u = Spanned::dummy(Expr::UnaryOp { op: uop, expr: leaf() });
    assert!(needs_parens_in_postfix(&u), "U-PARENS-OPERAND#postfix:prefix-operand-must-be-wrapped");
    std::mem::forget(u);

    let k: u8 = kani::any();
    kani::assume(k < 3);
    let t = open_term(k);
    if k == 0 { assert!(needs_parens_in_postfix(&t), "U-PARENS-OPERAND#postfix:conditional-operand-must-be-wrapped"); }
    if k == 1 { assert!(needs_parens_in_postfix(&t), "U-PARENS-OPERAND#postfix:lambda-operand-must-be-wrapped"); }
    if k == 2 { assert!(needs_parens_in_postfix(&t), "U-PARENS-OPERAND#postfix:assignment-operand-must-be-wrapped"); }
    std::mem::forget(t);

    let s = Spanned::dummy(Expr::Spread(leaf()));
    assert!(needs_parens_in_postfix(&s), "U-PARENS-OPERAND#postfix:spread-operand-must-be-wrapped");
    std::mem::forget(s);

    // a negative number literal prints with a leading '-', i.e. like a prefix operator
    let x: f64 = kani::any();
    let n = Spanned::dummy(Expr::Number(x));
    if x < 0.0 { assert!(needs_parens_in_postfix(&n), "U-PARENS-OPERAND#postfix:negative-number-must-be-wrapped"); }
    std::mem::forget(n);
    kani::cover!(true, "reach-end");
}
