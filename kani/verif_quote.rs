// Injected (rule T1) as a child module of blots-core/src/ast_to_source.rs under #[cfg(kani)].
// U-QUOTE: the text emitted for a string / record key reads back (by the grammar's literal rule:
// `string = PUSH("\"" | "'") ~ (!PEEK ~ ANY)* ~ POP`, no escape sequences) as the same string.
// Bounded: strings of at most 3 characters over an alphabet containing both quotes and backslash.
use super::*;

const ALPHABET: [char; 7] = ['a', '"', '\'', '\\', '_', '1', ' '];

fn any_string(max: usize) -> String {
    let n: usize = kani::any();
    kani::assume(n <= max);
    let mut s = String::new();
    let mut i = 0;
    while i < n {
        let k: usize = kani::any();
        kani::assume(k < ALPHABET.len());
        s.push(ALPHABET[k]);
        i += 1;
    }
    s
}

/// Reader for the grammar's string literal at byte position `pos` of `t`: returns (content, next position).
fn read_literal(t: &[u8], pos: usize) -> Option<(Vec<u8>, usize)> {
    if pos >= t.len() { return None; }
    let q = t[pos];
    if q != b'"' && q != b'\'' { return None; }
    let mut i = pos + 1;
    let mut out = Vec::new();
    while i < t.len() {
        if t[i] == q { return Some((out, i + 1)); }
        out.push(t[i]);
        i += 1;
    }
    None
}

/// Does `text` denote exactly the string `s`: one literal, or `(lit + lit + ...)` whose pieces concatenate to s?
fn denotes(text: &str, s: &str) -> bool {
    let t = text.as_bytes();
    let want = s.as_bytes();
    if t.is_empty() { return false; }
    if t[0] != b'(' {
        return matches!(read_literal(t, 0), Some((c, end)) if end == t.len() && c.as_slice() == want);
    }
    let mut pos = 1;
    let mut acc: Vec<u8> = Vec::new();
    loop {
        match read_literal(t, pos) {
            Some((c, end)) => { acc.extend_from_slice(&c); pos = end; }
            None => return false,
        }
        if pos < t.len() && t[pos] == b')' { return pos + 1 == t.len() && acc.as_slice() == want; }
        // separator " + "
        if pos + 3 <= t.len() && t[pos] == b' ' && t[pos + 1] == b'+' && t[pos + 2] == b' ' { pos += 3; } else { return false; }
    }
}

#[kani::proof]
#[kani::unwind(40)]
fn u_quote_string() {
    let s = any_string(3);
    let text = string_to_source(&s);
    assert!(denotes(&text, &s), "U-QUOTE#string:emitted-text-reads-back-as-the-same-string");
    kani::cover!(s.contains('"') && s.contains('\''), "reach-both-quotes");
    kani::cover!(s.contains('\\'), "reach-backslash");
}

/// the grammar's identifier rule, with the reserved words typed in from the statement of C10
fn spec_is_identifier(s: &str) -> bool {
    let b = s.as_bytes();
    if b.is_empty() { return false; }
    if !(b[0].is_ascii_alphabetic() || b[0] == b'_') { return false; }
    let mut i = 1;
    while i < b.len() { if !(b[i].is_ascii_alphanumeric() || b[i] == b'_') { return false; } i += 1; }
    !matches!(s, "if" | "then" | "else" | "true" | "false" | "null" | "and" | "or" | "not" | "do" | "return" | "output")
}

#[kani::proof]
#[kani::unwind(40)]
fn u_quote_record_key() {
    let s = any_string(3);
    let text = format_record_key(&s);
    let t = text.as_bytes();
    if t.len() > 0 && t[0] == b'[' {
        // computed key: [expr]
        assert!(t[t.len() - 1] == b']' && denotes(&text[1..text.len() - 1], &s), "U-QUOTE#key:computed-key-denotes-the-key");
    } else if t.len() > 0 && (t[0] == b'"' || t[0] == b'\'') {
        assert!(denotes(&text, &s), "U-QUOTE#key:quoted-key-reads-back-as-the-same-key");
    } else {
        assert!(text == s && spec_is_identifier(&s), "U-QUOTE#key:bare-key-only-if-it-is-an-identifier-of-the-grammar");
    }
    kani::cover!(t.len() > 0 && t[0] == b'[', "reach-computed");
    kani::cover!(text == s && s.len() == 2, "reach-bare");
}

// reserved words and keyword-like names are never emitted bare
#[kani::proof]
#[kani::unwind(14)]
fn u_quote_reserved() {
    let words = ["if", "then", "else", "true", "false", "null", "and", "or", "not", "do", "return", "output"];
    let i: usize = kani::any();
    kani::assume(i < words.len());
    assert!(!is_valid_identifier(words[i]), "U-QUOTE#key:reserved-word-is-not-a-bare-identifier");
    assert!(is_valid_identifier("iffy") && is_valid_identifier("_x1") && !is_valid_identifier("1x") && !is_valid_identifier(""), "U-QUOTE#key:identifier-shape");
    kani::cover!(i == 11, "reach-output");
}
