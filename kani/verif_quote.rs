// Injected (rule T1) as a child module of blots-core/src/ast_to_source.rs under #[cfg(kani)].
// U-QUOTE: is_valid_identifier accepts only identifiers of the grammar (so a record key is emitted bare only when the
// grammar reads it back as the same key). The quoted / concatenated forms of string_to_source and format_record_key are
// NOT under contract: a single constant string through the real format!/split/join code did not finish in 10 minutes
// (core::fmt's function-pointer dispatch), and with format! stubbed the text is unobservable.
use super::*;

// Strings are dispatched to CONSTANTS (symbolic strings through format!/split/join did not finish in 30 minutes).
// The pool contains every interesting shape: empty, plain, each quote kind alone / leading / trailing, both quote kinds in
// both orders, backslashes (also trailing and before a quote), spaces, digits first, non-ASCII letters (first and later),
// reserved words and reserved-word prefixes.
const POOL: [&str; 24] = [
    "", "a", "ab_1", "\"", "'", "a\"b", "a'b", "\"a", "a\"", "\"'", "'\"", "a\"b'c", "'a\"",
    "\\", "a\\", "\\\"", "a b", "1a", "_x", "\u{e9}", "a\u{e9}", "if", "iffy", "output",
];

macro_rules! dispatch24 {
    ($i:expr, $f:ident) => {
        match $i {
            0 => $f(0), 1 => $f(1), 2 => $f(2), 3 => $f(3), 4 => $f(4), 5 => $f(5), 6 => $f(6), 7 => $f(7),
            8 => $f(8), 9 => $f(9), 10 => $f(10), 11 => $f(11), 12 => $f(12), 13 => $f(13), 14 => $f(14), 15 => $f(15),
            16 => $f(16), 17 => $f(17), 18 => $f(18), 19 => $f(19), 20 => $f(20), 21 => $f(21), 22 => $f(22), _ => $f(23),
        }
    };
}

/// the grammar's identifier rule, with the reserved words typed in from the statement of C10
fn spec_is_identifier(s: &str) -> bool {
    let b = s.as_bytes();
    if b.is_empty() { return false; }
    if !(b[0].is_ascii_alphabetic() || b[0] == b'_') { return false; }
    let mut i = 1;
    while i < b.len() { if !(b[i].is_ascii_alphanumeric() || b[i] == b'_') { return false; } i += 1; }
    !matches!(s, "if" | "then" | "else" | "true" | "false" | "null" | "and" | "or" | "not" | "do" | "return" | "output")
}

// is_valid_identifier on every string of the pool: `true` only for identifiers of the grammar (a bare record key is
// emitted exactly when is_valid_identifier holds - read in format_record_key, not proved: format! string assembly)
#[kani::proof]
#[kani::unwind(14)]
fn u_quote_identifier_pool() {
    let i: usize = kani::any();
    kani::assume(i < POOL.len());
    dispatch24!(i, identifier_case);
    kani::cover!(i == 20, "reach-non-ascii-letter-after-ascii");
    kani::cover!(i == 22, "reach-reserved-prefix");
}

fn identifier_case(i: usize) {
    let s = POOL[i];
    if is_valid_identifier(s) {
        assert!(spec_is_identifier(s), "U-QUOTE#key:bare-key-only-if-it-is-an-identifier-of-the-grammar");
    }
    // identifiers the grammar accepts that are plain ASCII names stay bare (no needless quoting of ordinary keys)
    if i == 1 || i == 2 || i == 18 || i == 22 { assert!(is_valid_identifier(s), "U-QUOTE#key:ordinary-identifiers-stay-bare"); }
}

// reserved words and keyword-like names are never emitted bare
#[kani::proof]
#[kani::unwind(14)]
fn u_quote_reserved() {
    let words = ["if", "then", "else", "true", "false", "null", "and", "or", "not", "do", "return", "output"];
    let i: usize = kani::any();
    kani::assume(i < words.len());
    assert!(!is_valid_identifier(words[i]), "U-QUOTE#key:reserved-word-is-not-a-bare-identifier");
    assert!(is_valid_identifier("iffy") && is_valid_identifier("_x1") && !is_valid_identifier("1x") && !is_valid_identifier(""), "U-QUOTE#key:identifier-shape");
    kani::cover!(i == 11, "reach-output");
}
