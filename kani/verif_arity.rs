// Injected (rule T1) as a child module of blots-core/src/functions.rs under #[cfg(kani)].
// U-ARITY: arity classes and the arity check that precedes every args[i] access.
use super::*;
use crate::values::{FunctionArity, LambdaArg};

/// Specification of the three arity classes (C04: "exact / between / at-least").
fn spec_accepts(a: &FunctionArity, n: usize) -> bool {
    match a {
        FunctionArity::Exact(k) => n == *k,
        FunctionArity::AtLeast(k) => n >= *k,
        FunctionArity::Between(lo, hi) => *lo <= n && n <= *hi,
    }
}

fn any_arity() -> FunctionArity {
    let k: u8 = kani::any();
    let a: usize = kani::any();
    let b: usize = kani::any();
    match k % 3 {
        0 => FunctionArity::Exact(a),
        1 => FunctionArity::AtLeast(a),
        _ => FunctionArity::Between(a, b),
    }
}

#[kani::proof]
fn u_arity_can_accept() {
    let a = any_arity();
    let n: usize = kani::any();
    assert!(a.can_accept(n) == spec_accepts(&a, n), "U-ARITY#can_accept:equals-the-arity-class-definition");
    kani::cover!(a.can_accept(n), "reach-accept");
    kani::cover!(!a.can_accept(n), "reach-reject");
}

// every built-in x every argument count: check_arity succeeds exactly on the counts its class accepts
#[kani::proof]
#[kani::stub(alloc::fmt::format, crate::verif_common::fmt_stub)]
fn u_arity_builtin_check() {
    let b: BuiltInFunction = kani::any();
    let n: usize = kani::any();
    let f = FunctionDef::BuiltIn(b);
    let r = f.check_arity(n);
    let ok = r.is_ok();
    std::mem::forget(r);
    assert!(ok == spec_accepts(&b.arity(), n), "U-ARITY#check_arity:builtin-ok-iff-class-accepts-count");
    assert!(ok == f.arity().can_accept(n), "U-ARITY#check_arity:builtin-agrees-with-arity().can_accept");
    kani::cover!(ok, "reach-ok");
    kani::cover!(!ok, "reach-err");
}
