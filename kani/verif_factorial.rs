// Injected (rule T1) as a child module of blots-core/src/expressions.rs under #[cfg(kani)].
// U-GUARD (factorial): the PostfixOp::Factorial arm of evaluate_ast, sliced verbatim (rule T3) into
// verif_factorial_arm, never panics for ANY number (guard arithmetic `n as u64 + 1`); the product loop that follows
// is cut at the unwind bound (run with --no-unwinding-checks).
use super::*;

#[kani::proof]
#[kani::unwind(3)]
#[kani::stub(alloc::fmt::format, crate::verif_common::fmt_stub)]
#[kani::stub(std::backtrace::Backtrace::capture, crate::verif_common::bt_stub)]
#[kani::stub(<crate::error::RuntimeError as std::convert::From<::anyhow::Error>>::from, crate::verif_common::from_anyhow_stub)]
fn u_guard_factorial() {
    let x: f64 = kani::any();
    let val = Value::Number(x);
    let expr = Spanned::dummy(Expr::Null);
    let src: Rc<str> = Rc::from("");
    let r = verif_factorial_arm(val, &expr, src);
    if !(x >= 0.0) || x != x.trunc() { assert!(r.is_err(), "U-GUARD#factorial:negative-fractional-or-nan-is-an-error"); }
    // above 170 the true value exceeds f64::MAX: the answer is infinity (integers of 2^64 and above are rejected by the
    // integrality guard instead - an error, which C01 allows)
    if x > 170.0 && x == x.trunc() && x.is_finite() { assert!(r.is_err() || matches!(r, Ok(Value::Number(z)) if z == f64::INFINITY), "U-GUARD#factorial:above-170-is-infinity-or-an-error"); }
    kani::cover!(x == 18446744073709551616.0, "reach-two-to-the-64");
    kani::cover!(r.is_ok() && x < 3.0, "reach-small");
    std::mem::forget(r); std::mem::forget(expr);
}
