#!/usr/bin/env python3
"""Apply each canary to a throw-away copy of /repo and run the owning check restricted to the owning unit.
usage: run_canaries.py [property-id ...]   (default: all)   exit 0 if every applicable canary is caught."""
import os
import re
import shutil
import subprocess
import sys
import tempfile

VERIF = os.path.dirname(os.path.dirname(os.path.abspath(__file__)))
sys.path.insert(0, VERIF)
from vlib.canaries import CANARIES  # noqa: E402
from vlib import registry  # noqa: E402

want = set(a for a in sys.argv[1:] if not a.startswith("--"))
json_out = [a.split("=", 1)[1] for a in sys.argv[1:] if a.startswith("--json=")]
results = []
bad = 0
for cid, pid, unit, file, old, new, expect in CANARIES:
    if want and pid not in want and cid not in want:
        continue
    if pid not in registry.PROPERTIES or unit not in [u.uid for u in registry.PROPERTIES[pid]["units"]]:
        print(f"canary {cid}: SKIP (unit {unit} not registered for {pid})")
        results.append({"canary": cid, "unit": unit, "verdict": "skipped (unit not registered)"})
        continue
    d = tempfile.mkdtemp(prefix="blots-canary.")
    try:
        subprocess.run(["rsync", "-a", "--exclude", "target", "--exclude", ".git", "/repo/", d + "/"], check=True)
        p = os.path.join(d, "blots-core", "src", file)
        s = open(p).read()
        if s.count(old) != 1:
            print(f"canary {cid}: SKIP (anchor found {s.count(old)} times in {file})")
            results.append({"canary": cid, "unit": unit, "verdict": "skipped (anchor lost)"})
            continue
        open(p, "w").write(s.replace(old, new))
        env = dict(os.environ, VERIF_REPO=d, VERIF_EVIDENCE_DIR=os.path.join(d, "evidence"), VERIF_REPLAY_DIR=os.path.join(d, "replays"))
        r = subprocess.run([os.path.join(VERIF, "check"), pid, "--units", unit], cwd=VERIF, env=env, stdin=subprocess.DEVNULL,
                           capture_output=True, text=True)
        viol = [l for l in r.stdout.splitlines() if l.startswith("VIOLATION")]
        hit = [l for l in viol if expect in l]
        if r.returncode == 1 and hit:
            print(f"canary {cid}: CAUGHT by {unit} ({hit[0][:160]})")
            results.append({"canary": cid, "unit": unit, "verdict": "caught", "obligation": hit[0][:200]})
        elif r.returncode == 1:
            print(f"canary {cid}: CAUGHT (other obligation) {viol[0][:200]}")
            results.append({"canary": cid, "unit": unit, "verdict": "caught (other obligation)", "obligation": viol[0][:200]})
        else:
            bad += 1
            print(f"canary {cid}: MISSED rc={r.returncode} :: {r.stdout[-400:]} {r.stderr[-300:]}")
            results.append({"canary": cid, "unit": unit, "verdict": f"MISSED rc={r.returncode}", "tail": r.stdout[-300:]})
    finally:
        shutil.rmtree(d, ignore_errors=True)
if json_out:
    import json
    json.dump(results, open(json_out[0], "w"), indent=1)
sys.exit(1 if bad else 0)
