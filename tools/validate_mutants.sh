#!/bin/bash
# usage: validate_mutants.sh <out_dir_glob...>   e.g. /tmp/out_c07/1
# For each mutant dir: apply to a scratch worktree of /repo HEAD, run the full test suite, run demo (must fail),
# revert, run demo (must pass). Appends one JSON line per mutant to /tmp/mutant_validation.jsonl
WT=/tmp/wt_validate
if [ ! -d $WT ]; then git -C /repo worktree add --detach $WT HEAD -q; fi
git -C $WT checkout -q --detach main
for d in "$@"; do
  git -C $WT checkout -q -- . ; git -C $WT clean -fdq -e target
  ap=ok; git -C $WT apply "$d/patch.diff" 2>/dev/null || ap=fail
  if [ $ap = fail ]; then echo "{\"dir\":\"$d\",\"apply\":\"fail\"}" >> /tmp/mutant_validation.jsonl; continue; fi
  tests=$(cd $WT && timeout 1500 cargo test --workspace --no-fail-fast --offline </dev/null 2>&1 | grep -E "^test result" | awk '{p+=$4; f+=$6} END {print p"/"f}')
  (cd $WT && timeout 600 bash "$d/demo.sh" $WT </dev/null >/tmp/demo_patched.log 2>&1); dp=$?
  git -C $WT checkout -q -- . ; git -C $WT clean -fdq -e target
  (cd $WT && timeout 600 bash "$d/demo.sh" $WT </dev/null >/tmp/demo_clean.log 2>&1); dc=$?
  echo "{\"dir\":\"$d\",\"apply\":\"ok\",\"tests_pass_fail\":\"$tests\",\"demo_patched_rc\":$dp,\"demo_clean_rc\":$dc}" >> /tmp/mutant_validation.jsonl
done
