#!/bin/bash
# usage: with_patch.sh [-R] <patch-file> <command...>
# Applies the patch to /repo's working tree, runs the command, and always restores /repo.
REV=""
if [ "$1" = "-R" ]; then REV="-R"; shift; fi
P="$1"; shift
if [ -n "$(git -C /repo status --porcelain --untracked-files=no)" ]; then echo "with_patch: /repo working tree not clean" >&2; exit 3; fi
git -C /repo apply $REV "$P" || { echo "with_patch: patch does not apply" >&2; exit 3; }
"$@" </dev/null
rc=$?
git -C /repo checkout -- . 
exit $rc
