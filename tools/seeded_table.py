#!/usr/bin/env python3
"""Regenerate the seeded-change table in DESIGN.md from seeded/results.json and the meta.json files."""
import json
import os
import re

V = os.path.dirname(os.path.dirname(os.path.abspath(__file__)))
res = json.load(open(os.path.join(V, "seeded", "results.json")))
rows = ["| id | change (what it needs to manifest) | verdict of `./check <property>` (quick) | obligation that failed |", "|---|---|---|---|"]
for i in sorted(res):
    m = json.load(open(os.path.join(V, "seeded", i, "meta.json")))
    summ = (m.get("summary") or "")[:150].replace("|", "/").replace("\n", " ")
    r = res[i]
    ob = ""
    if r["violations"]:
        mm = re.search(r"unit=(\S+) obligation=(.*?)( no-failing-input-found)?$", r["violations"][0])
        ob = f"{mm.group(1)}: {mm.group(2)[:90]}" if mm else r["violations"][0][:100]
    elif r["undecided"]:
        ob = r["undecided"][0][:100]
    rows.append(f"| {i} | {summ} | **{r['verdict']}** | {ob} |")
caught = sum(1 for r in res.values() if r["verdict"] == "caught")
rows.append("")
rows.append(f"Caught {caught} of {len(res)} in the quick tier.")
p = os.path.join(V, "DESIGN.md")
s = open(p).read()
a = s.find("<!-- seeded-table-begin -->")
if a < 0:
    s = s.replace("SEEDED_TABLE_PLACEHOLDER", "<!-- seeded-table-begin -->\n" + "\n".join(rows) + "\n<!-- seeded-table-end -->")
else:
    b = s.find("<!-- seeded-table-end -->")
    s = s[:a] + "<!-- seeded-table-begin -->\n" + "\n".join(rows) + "\n" + s[b:]
open(p, "w").write(s)
print("table:", len(res), "rows, caught", caught)
