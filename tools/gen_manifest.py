#!/usr/bin/env python3
"""Regenerate /verif/MANIFEST.json from the unit registry (single source of truth)."""
import json
import os
import sys

sys.path.insert(0, os.path.dirname(os.path.dirname(os.path.abspath(__file__))))
from vlib import registry  # noqa: E402

NOT_APPLICABLE = registry.NOT_APPLICABLE

checks = []
for pid in sorted(registry.PROPERTIES):
    p = registry.PROPERTIES[pid]
    units = p["units"]
    engines = sorted({u.engine for u in units})
    checks.append({
        "property_id": pid,
        "quick_cmd": f"./check {pid} --tier quick",
        "thorough_cmd": f"./check {pid} --tier thorough",
        "evidence_file": f"/verif/evidence/{pid}.json",
        "replay_cmd_template": "cat {path}",
        "engine": "+".join(engines),
        "level_claimed": {"category": p["level"], "text": p["explanation"], "design_ref": "DESIGN.md section 3, " + pid},
        "level_note": "Trusted: kani-compiler 0.68 / CBMC 6.11 / CaDiCaL, Verus 0.2026.09.13 / Z3, the extractor in /verif/vlib. "
                      "Assumed (unchecked): " + "; ".join(p["assumptions"][2:] + ["NOT DECIDED: " + "; ".join(p["not_decided"])]),
        "technique": "contract-based deductive verification: " + ", ".join(
            f"{u.uid} ({'Kani/CBMC contract harness on the real function or a verbatim slice of it' if u.engine == 'kani' else 'Verus requires/ensures on code extracted verbatim' if u.engine == 'verus' else 'frame audit (token scan)'}{', thorough tier only' if u.tier == 'thorough' else ''}{', bounded: ' + u.bound if getattr(u, 'bound', None) else ''})"
            for u in units),
    })

manifest = {
    "version": 1,
    "setup_cmd": "./check --setup",
    "hooks": {
        "guard": "none (cfg(kani) is set only by cargo-kani inside scratch copies; no hook is committed to /repo)",
        "enable": "checks copy /repo/blots-core to a scratch directory and inject #[cfg(kani)] harness modules there (rules T1-T4 in DESIGN.md)",
        "baseline_off_cmd": "cd /repo && cargo test --workspace --no-fail-fast --offline </dev/null",
        "source_commits": [],
        "add_only": True,
    },
    "engines": [
        {"name": "kani", "path": "/verif/kani", "serves_properties": sorted(p for p in registry.PROPERTIES if any(u.engine == "kani" for u in registry.PROPERTIES[p]["units"])),
         "kind_free_text": "Kani 0.68 / CBMC 6.11 proof harnesses with contract stubs, injected into a scratch copy of the real crate"},
        {"name": "verus", "path": "/verif/verus", "serves_properties": sorted(p for p in registry.PROPERTIES if any(u.engine == "verus" for u in registry.PROPERTIES[p]["units"])),
         "kind_free_text": "Verus requires/ensures/lemmas on functions extracted verbatim from /repo on every run"},
    ],
    "checks": checks,
    "notes": "Exit 2 = undecided (lost anchor, timeout, tool failure) - never reported as a violation. fix: commits in /repo repair "
             "genuine defects found by the contracts (see known_findings.json and DESIGN.md section 5).",
    "not_applicable": [{"property_id": k, "reason": v} for k, v in sorted(NOT_APPLICABLE.items()) if k not in registry.PROPERTIES],
}
json.dump(manifest, open(os.path.join(os.path.dirname(os.path.dirname(os.path.abspath(__file__))), "MANIFEST.json"), "w"), indent=1)
print("MANIFEST.json:", len(checks), "checks,", len(manifest["not_applicable"]), "not applicable")
