#!/usr/bin/env python3
"""Run each seeded change in /verif/seeded against the check of the property it breaks (on a throw-away COPY of /repo).
usage: eval_seeded.py [id ...]   Writes /verif/seeded/results.json (merged) and prints one line per mutant."""
import json
import os
import subprocess
import sys
import time

VERIF = os.path.dirname(os.path.dirname(os.path.abspath(__file__)))
ids = sys.argv[1:] or sorted(d for d in os.listdir(os.path.join(VERIF, "seeded")) if os.path.isdir(os.path.join(VERIF, "seeded", d)))
res_path = os.path.join(VERIF, "seeded", "results.json")
res = json.load(open(res_path)) if os.path.exists(res_path) else {}
for i in ids:
    d = os.path.join(VERIF, "seeded", i)
    prop = json.load(open(os.path.join(d, "meta.json")))["property"]
    t0 = time.time()
    env = dict(os.environ, VERIF_EVIDENCE_DIR="/tmp/seeded_evidence", VERIF_REPLAY_DIR="/tmp/seeded_replays")
    r = subprocess.run([os.path.join(VERIF, "tools", "run_on_patched.sh"), os.path.join(d, "patch.diff"), prop],
                       capture_output=True, text=True, env=env, stdin=subprocess.DEVNULL)
    viol = [l for l in r.stdout.splitlines() if l.startswith("VIOLATION")]
    und = [l for l in r.stdout.splitlines() if l.startswith("UNDECIDED")]
    verdict = {0: "missed", 1: "caught", 2: "undecided"}.get(r.returncode, f"rc{r.returncode}")
    head = subprocess.run(["git", "-C", VERIF, "rev-parse", "--short", "HEAD"], capture_output=True, text=True).stdout.strip()
    res[i] = {"property": prop, "verdict": verdict, "violations": [v[:300] for v in viol[:6]], "undecided": und[:4],
              "wall_s": round(time.time() - t0), "verif_commit": head}
    print(i, verdict, (viol[0][:200] if viol else ""), flush=True)
    json.dump(res, open(res_path, "w"), indent=1)
