#!/bin/bash
# usage: run_on_patched.sh [-R] <patch> <check args...>
# Runs ./check against a throw-away copy of /repo with the patch applied (never touches /repo itself).
REV=""
if [ "$1" = "-R" ]; then REV="-R"; shift; fi
P="$(realpath "$1")"; shift
D=$(mktemp -d /tmp/blots-patched.XXXXXX)
trap 'rm -rf "$D"' EXIT
rsync -a --exclude target --exclude .git /repo/ "$D/"
( cd "$D" && git init -q . && git apply $REV "$P" ) || { echo "run_on_patched: patch does not apply" >&2; exit 3; }
cd /verif && VERIF_REPO="$D" ./check "$@" </dev/null
